"""./check <ID> <quick|thorough> [--replay FILE] [--jobs N]

Runs the shards of one property in up to 16 fresh subprocesses, merges their results, classifies failures
against known_findings.json, writes evidence/<ID>.json and prints VIOLATION / KNOWN-FINDING lines.
Exit 0 held; 1 violation; 2 harness error / inconclusive."""
import argparse
import glob
import hashlib
import importlib
import json
import os
import subprocess
import sys
import tempfile
import time

from vf import env
from vf.result import jdump

HOME = env.VERIF_HOME
WALL_LIMIT = {"quick": 900, "thorough": 4 * 3600}


def load_known():
    p = os.path.join(HOME, "known_findings.json")
    if not os.path.exists(p):
        return []
    with open(p) as f:
        return json.load(f).get("findings", [])


def classify(pid, failures, known):
    """-> (violations, known_hits{finding_id: (entry, count)})"""
    opens = {k["signature"]: k for k in known if k.get("property") == pid and k.get("status") == "open"}
    viol, hits = [], {}
    for f in failures:
        k = opens.get(f["sig"])
        if k is not None:
            e = hits.setdefault(k["id"], [k, 0])
            e[1] += 1
        else:
            viol.append(f)
    return viol, hits


def write_replay(pid, f):
    d = os.path.join(HOME, "evidence", "replays")
    os.makedirs(d, exist_ok=True)
    body = {"property": pid, "kind": f["kind"], "sig": f["sig"], "msg": f["msg"], "case": f["case"]}
    h = hashlib.sha256(json.dumps(body, sort_keys=True, default=repr).encode()).hexdigest()[:12]
    path = os.path.join(d, "%s-%s.json" % (pid, h))
    jdump(body, path)
    return path


def run_workers(pid, tier, seed, shards, jobs, tmp):
    procs, results, pending = [], {}, list(enumerate(shards))
    envv = dict(os.environ)
    envv["PYTHONPATH"] = os.pathsep.join([HOME, env.REPO, os.path.join(HOME, ".deps")])
    envv["PYTHONHASHSEED"] = "0"
    envv["PYTHONDONTWRITEBYTECODE"] = "1"
    envv["VERIF_HOME"] = HOME
    envv["VERIF_WORK_BASE"] = tmp          # every worker's scratch directory lives inside the run's own directory, which is removed
    deadline = time.time() + WALL_LIMIT[tier]
    errors = []
    while pending or procs:
        while pending and len(procs) < jobs:
            i, sh = pending.pop(0)
            out = os.path.join(tmp, "shard%d.json" % i)
            log = open(os.path.join(tmp, "shard%d.log" % i), "w")
            p = subprocess.Popen([sys.executable, "-m", "vf.worker", pid, tier, str(seed), json.dumps(sh), out],
                                 stdout=log, stderr=subprocess.STDOUT, env=envv, cwd=tmp)
            procs.append((i, p, out, log))
        time.sleep(0.05)
        for ent in list(procs):
            i, p, out, log = ent
            rc = p.poll()
            if rc is None:
                if time.time() > deadline:
                    p.kill()
                    errors.append("shard %d: wall-clock budget exhausted (inconclusive)" % i)
                    procs.remove(ent)
                continue
            procs.remove(ent)
            log.close()
            if os.path.exists(out):
                with open(out) as f:
                    results[i] = json.load(f)
            else:
                with open(log.name) as f:
                    tail = f.read()[-3000:]
                errors.append("shard %d exited %s without a result:\n%s" % (i, rc, tail))
    return results, errors


def merge(results):
    m = {"evaluations": 0, "digests": set(), "disjoint": 0, "counters": {}, "samples": [], "failures": [],
         "errors": [], "exhaustive": None, "extra": {}}
    for i in sorted(results):
        r = results[i]
        m["evaluations"] += r["evaluations"]
        m["digests"].update(r["digests"])
        m["disjoint"] += r["disjoint"]
        for k, v in r["counters"].items():
            m["counters"][k] = m["counters"].get(k, 0) + v
        for s in r["samples"]:
            if len(m["samples"]) < 6:
                m["samples"].append(s)
        m["failures"].extend(r["failures"])
        m["errors"].extend(r["errors"])
        if r["exhaustive"] is not None:
            m["exhaustive"] = r["exhaustive"] if m["exhaustive"] is None else (m["exhaustive"] and r["exhaustive"])
        for k, v in r.get("extra", {}).items():
            m["extra"].setdefault(k, v)
    return m


def main():
    ap = argparse.ArgumentParser()
    ap.add_argument("pid")
    ap.add_argument("tier", nargs="?", default=os.environ.get("VERIF_TIER", "quick"), choices=["quick", "thorough"])
    ap.add_argument("--replay")
    ap.add_argument("--jobs", type=int, default=int(os.environ.get("VERIF_JOBS", "16")))
    ap.add_argument("--no-evidence", action="store_true")
    a = ap.parse_args()
    pid = a.pid.upper()
    seed = int(os.environ.get("VERIF_SEED", "1") or 1)
    known = load_known()
    t0 = time.time()

    if a.replay:
        a.replay = os.path.abspath(a.replay)
        env.enter_workdir()
        mod = importlib.import_module("vf.props." + pid.lower())
        with open(a.replay) as f:
            rec = json.load(f)
        fails = mod.replay(rec["case"])
        for fl in fails:
            fl.setdefault("case", rec["case"])
        viol, hits = classify(pid, fails, known)
        for fid, (k, n) in hits.items():
            print("KNOWN-FINDING: property=%s %s [%s]" % (pid, k["what"], fid))
        for v in viol:
            print("VIOLATION property=%s replay=%s  # %s: %s" % (pid, os.path.abspath(a.replay), v["sig"], v["msg"][:300]))
        sys.exit(1 if viol else 0)

    mod = importlib.import_module("vf.props." + pid.lower())
    shards = list(mod.shards(a.tier))
    reg = sorted(glob.glob(os.path.join(HOME, "regress", pid, "*.json")))
    if reg:
        shards.insert(0, {"kind": "__regress__", "files": reg})
    tmp = tempfile.mkdtemp(prefix="vfrun_%s_" % pid)
    try:
        results, errors = run_workers(pid, a.tier, seed, shards, a.jobs, tmp)
    finally:
        import shutil
        shutil.rmtree(tmp, ignore_errors=True)
    m = merge(results)
    m["errors"].extend(errors)
    if hasattr(mod, "finalize"):
        m["failures"].extend(mod.finalize(m, a.tier) or [])
    viol, hits = classify(pid, m["failures"], known)
    wall = time.time() - t0

    # one replay per signature bucket
    seen, lines = set(), []
    for v in viol:
        if v["sig"] in seen:
            continue
        seen.add(v["sig"])
        path = write_replay(pid, v)
        lines.append("VIOLATION property=%s replay=%s  # %s: %s" % (pid, path, v["sig"], v["msg"][:300].replace("\n", " ")))
    for fid, (k, n) in sorted(hits.items()):
        print("KNOWN-FINDING: property=%s %s [%s, %d case(s) this run]" % (pid, k["what"], fid, n))

    distinct = len(m["digests"]) + m["disjoint"]
    cov = {
        "evaluations": m["evaluations"],
        "distinct_nontrivial": distinct,
        "rule": getattr(mod, "RULE", ""),
        "samples": m["samples"],
        "classes": dict(sorted(m["counters"].items())),
        "shards": len(shards),
        "known_findings_hit": {fid: n for fid, (k, n) in hits.items()},
    }
    if m["exhaustive"] is not None:
        cov["exhaustive"] = bool(m["exhaustive"])
    cov.update(m["extra"])
    ev = {
        "property_id": pid, "tier": a.tier, "seed": seed, "level": getattr(mod, "LEVEL", "exploration"),
        "coverage": cov, "assumptions": list(getattr(mod, "ASSUMPTIONS", [])), "wall_s": round(wall, 2),
        "violations": len(seen),
    }
    if m["errors"]:
        ev["coverage"]["harness_errors"] = m["errors"][:5]
    if not a.no_evidence:
        os.makedirs(os.path.join(HOME, "evidence"), exist_ok=True)
        jdump(ev, os.path.join(HOME, "evidence", "%s.json" % pid))

    for ln in lines:
        print(ln)
    print("%s %s seed=%d: %d evaluations, %d distinct non-trivial, %d violation bucket(s), %d known, %.1fs"
          % (pid, a.tier, seed, m["evaluations"], distinct, len(seen), len(hits), wall))
    if lines:
        sys.exit(1)
    if m["errors"]:
        for e in sorted(set(m["errors"]))[:2]:
            print("HARNESS-ERROR: " + e[-1800:], file=sys.stderr)
        print("HARNESS-ERROR: %d shard error(s) in total" % len(m["errors"]), file=sys.stderr)
        sys.exit(2)
    minimum = getattr(mod, "MIN_NONTRIVIAL", {}).get(a.tier, 2)
    if distinct < minimum:
        print("HARNESS-ERROR: only %d non-trivial cases (< %d): generator degenerate" % (distinct, minimum), file=sys.stderr)
        sys.exit(2)
    sys.exit(0)


if __name__ == "__main__":
    try:
        main()
    except SystemExit:
        raise
    except BaseException:
        import traceback
        traceback.print_exc()
        print("HARNESS-ERROR: runner crashed", file=sys.stderr)
        sys.exit(2)
