"""Per-shard result container and the failure record shared by all property modules."""
import collections
import json
import traceback


class Result:
    primary = None      # the first Result created in a worker: kept (with its failures) if the shard crashes later

    def __init__(self):
        if Result.primary is None:
            Result.primary = self
        self.evaluations = 0
        self.digests = set()        # digests of distinct non-trivial cases (unioned across shards)
        self.disjoint = 0           # non-trivial cases that are distinct by construction (summed across shards)
        self.counters = collections.Counter()
        self.samples = []
        self.failures = []          # {"kind","sig","msg","case"}
        self.errors = []            # harness errors (exit 2)
        self.exhaustive = None
        self.extra = {}
        self._sigs = set()

    def count(self, key, n=1):
        self.counters[key] += n

    def nontrivial(self, digest):
        self.digests.add(digest)

    def sample(self, s, limit=3):
        if len(self.samples) < limit:
            self.samples.append(s)

    def fail(self, kind, sig, msg, case, limit_per_sig=2):
        """Record a failure; at most `limit_per_sig` per signature are kept (one root cause = one bucket)."""
        n = sum(1 for f in self.failures if f["sig"] == sig)
        self.counters["fail:" + sig] += 1
        if n < limit_per_sig:
            self.failures.append({"kind": kind, "sig": sig, "msg": str(msg)[:2000], "case": case})

    def error(self, msg):
        self.errors.append(str(msg)[:4000])

    def to_json(self):
        return {
            "evaluations": self.evaluations,
            "digests": sorted(self.digests),
            "disjoint": self.disjoint,
            "counters": dict(self.counters),
            "samples": self.samples,
            "failures": self.failures,
            "errors": self.errors,
            "exhaustive": self.exhaustive,
            "extra": self.extra,
        }


def jdump(obj, path):
    with open(path, "w") as f:
        json.dump(obj, f, indent=1, sort_keys=True, default=repr)


def exc_sig(e):
    """(type, innermost skepticoin frame) -- used to bucket unexpected exceptions by root cause."""
    tb = traceback.extract_tb(e.__traceback__)
    inner = None
    for fr in tb:
        if "skepticoin" in fr.filename:
            inner = "%s:%s" % (fr.filename.split("skepticoin/")[-1], fr.name)
    return "%s@%s" % (type(e).__name__, inner)
