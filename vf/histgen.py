"""Label-level history generator.  Produces JSON-able block ops (see vf.build.World.build_block) from a
`random.Random`-compatible source -- in the checks that source is Hypothesis' st.randoms(use_true_random=True), so
every choice is made (and shrunk) by the library.  Keeps its own label-level ledger; never touches the code under test.
"""
HALVING = 1_050_000
TWO256 = 1 << 256
MAX_SASHIMI = 2_099_999_986_350_000
N_KEYS = 8
DTS = [1, 2, 10, 120, 120, 120, 10_000, 1_000_000]
TARGET_FLOOR = 1 << 245


def subsidy(h):
    e = h // HALVING
    return 0 if e >= 64 else (1_000_000_000 >> e)


class Lbl:
    __slots__ = ("label", "parent", "height", "ts", "target", "utxo", "chain", "txnames", "seq", "nkids", "miner", "cbdata")

    def __init__(self, label, parent, height, ts, target, utxo, chain, txnames, seq):
        self.label, self.parent, self.height, self.ts, self.target = label, parent, height, ts, target
        self.utxo, self.chain, self.txnames, self.seq = utxo, chain, txnames, seq
        self.nkids = 0
        self.miner = None
        self.cbdata = None


class Gen:
    def __init__(self, rnd, genesis_ts, genesis_target, period, timespan, **opts):
        self.r = rnd
        self.period, self.timespan = period, timespan
        self.base_h = opts.pop("base_height", 0)
        self.base_ts_at = opts.pop("base_ts_at", None)
        g = Lbl("g", None, self.base_h, genesis_ts, genesis_target, {("g.0", 0): (1_000_000_000, None)}, ("g",), ["g.0"], 0)
        self.L = {"g": g}
        self.order = ["g"]
        self.txdef = {}            # tx name -> op (for copies)
        self.n = 0
        self.opts = dict(p_tx=0.7, max_tx=3, p_copy=0.0, p_same_cb=0.0, p_fork=0.4, p_unusual=0.15, max_height=None, zero_rewards=False, p_deep_fork=0.0, deep_min=11, p_sibling=0.0, c05_extra_tags=None, p_big_block=0.0, p_extend_side=0.0, p_binary_cbdata=0.0,
                         prefix="", dts=None)
        self.opts.update(opts)

    # ------------------------------------------------------------ helpers
    def best(self):
        b = None
        for l in self.order:
            n = self.L[l]
            if b is None or n.height > b.height:
                b = n
        return b

    def tips(self):
        return [self.L[l] for l in self.order if self.L[l].nkids == 0]

    def pick_parent(self):
        x = self.r.random()
        best = self.best()
        if self.opts.get("p_deep_fork") and self.r.random() < self.opts["p_deep_fork"]:
            # a branch that starts FAR below the head (more than 10 blocks): stale forks are validated like any other block
            deep = [self.L[l] for l in self.order if self.L[l].height <= best.height - self.opts["deep_min"]]
            if deep:
                self.deep_forks = getattr(self, "deep_forks", 0) + 1
                return self.r.choice(deep)
        if self.opts.get("p_extend_side") and self.r.random() < self.opts["p_extend_side"]:
            # keep ONE side branch growing next to the best chain: it gets long (crosses retarget heights, outlives its fork point
            # by more than an interval) without ever becoming the head
            side = [t for t in self.tips() if t is not best and t.height < best.height]
            if side:
                return max(side, key=lambda t: (t.height, -t.seq))
        if self.opts.get("p_sibling") and best.parent is not None and self.r.random() < self.opts["p_sibling"]:
            # a competitor of the best block itself (same height): keeps same-height pairs coming all the way up a long history
            par = best.parent if not isinstance(best.parent, str) else self.L.get(best.parent)
            if par is not None:
                return par
        if x >= self.opts["p_fork"] or len(self.order) == 1:
            return best
        tips = [t for t in self.tips() if t is not best]
        if tips and x < self.opts["p_fork"] * 0.6:
            return self.r.choice(tips)
        return self.L[self.r.choice(self.order)]

    def start_ts(self, parent, sh):
        if sh >= self.base_h:
            return self.L[parent.chain[sh - self.base_h]].ts
        return self.base_ts_at(sh)

    def target_at(self, parent, ts):
        h = parent.height + 1
        if h % self.period == 0:
            return min(parent.target * (ts - self.start_ts(parent, h - self.period)) // self.timespan, TWO256 - 1)
        return parent.target

    def choose_dt(self, parent, prefer=None):
        dt = prefer if prefer is not None else self.r.choice(self.opts["dts"] or DTS)
        h = parent.height + 1
        if h % self.period == 0:
            need = -(-TARGET_FLOOR * self.timespan // parent.target)      # elapsed needed to stay above the floor
            el = parent.ts + dt - self.start_ts(parent, h - self.period)
            if el < need:
                dt += need - el
        return dt

    def split(self, total, n):
        """n positive parts summing to total (total >= n)"""
        parts = []
        rest = total
        for k in range(n - 1):
            hi = rest - (n - 1 - k)
            mode = self.r.randrange(4)
            v = 1 if mode == 0 else (hi if mode == 1 else self.r.randint(1, hi))
            parts.append(v)
            rest -= v
        parts.append(rest)
        return parts

    def honest_tx(self, label, txi, avail, contested=()):
        """avail: list of (ref, (value, key)) spendable and unused in this block; consumes from it.  `contested`: outputs
        that a DIFFERENT transaction spends on another branch -- preferred half of the time, so that competing branches
        hold conflicting spends of the same output (each valid on its own branch)."""
        n_in = min(len(avail), self.r.choice([1, 1, 1, 2, 2, 3]) if not getattr(self, "_one_in", False) else 1)
        ins = []
        for _ in range(n_in):
            hot = [j for j, a in enumerate(avail) if a[0] in contested]
            if hot and self.r.random() < 0.5:
                ins.append(avail.pop(self.r.choice(hot)))
                self.conflicting_spends = getattr(self, "conflicting_spends", 0) + 1
                continue
            ins.append(avail.pop(self.r.randrange(len(avail))))
        total = sum(v for _, (v, _k) in ins)
        fmode = self.r.randrange(5)
        fee = 0 if (fmode == 0 or total < 2) else (1 if fmode == 1 else (self.r.randint(0, min(total - 1, 5000)) if fmode == 2
                                                                     else (total - 1 if fmode == 3 else self.r.randint(0, total - 1))))
        fee = max(0, min(fee, total - 1))
        n_out = min(total - fee, self.r.choice([1, 1, 2, 2, 3]))
        vals = self.split(total - fee, n_out)
        outs = [[v, self.r.randrange(N_KEYS)] for v in vals]
        name = "%s.%d" % (label, txi)
        return {"name": name, "ins": [[r[0], r[1]] for r, _ in ins], "outs": outs}, fee

    # ------------------------------------------------------------ honest block
    def honest_block(self, parent=None, n_tx=None, dt=None):
        p = parent or self.pick_parent()
        self.n += 1
        label = "%sb%d" % (self.opts["prefix"], self.n)
        op = {"label": label, "parent": p.label, "miner": self.r.randrange(N_KEYS), "txs": []}
        op["dt"] = self.choose_dt(p, dt)
        avail = sorted((r, o) for r, o in p.utxo.items() if o[1] is not None and o[0] >= 1)
        big = False
        if n_tx is None:
            n_tx = 0
            while n_tx < self.opts["max_tx"] and self.r.random() < self.opts["p_tx"]:
                n_tx += 1
            if self.opts.get("p_big_block") and len(avail) >= 16 and self.r.random() < self.opts["p_big_block"]:
                n_tx = self.r.randint(16, min(len(avail), 24))      # a block with many payments (as many as there are outputs to spend)
                self.big_blocks = getattr(self, "big_blocks", 0) + 1
                big = True
        fees = 0
        for ti in range(1, n_tx + 1):
            self._one_in = big
            if self.opts["p_copy"] and self.r.random() < self.opts["p_copy"]:
                c = self.copy_candidate(p, avail)
                if c is not None:
                    name, d, fee = c
                    used = {tuple(i) for i in d["ins"]}
                    avail[:] = [a for a in avail if a[0] not in used]
                    op["txs"].append({"copy": name})
                    fees += fee
                    continue
            if not avail:
                break
            contested = {tuple(i) for (d, _f, home) in self.txdef.values() if home not in p.chain for i in d["ins"]}
            t, fee = self.honest_tx(label, len(op["txs"]) + 1, avail, contested)
            op["txs"].append(t)
            fees += fee
        self._one_in = False
        if self.opts.get("p_binary_cbdata") and self.r.random() < self.opts["p_binary_cbdata"]:
            # the free-form data of the reward: arbitrary octets (not text), lengths around every size another field has
            n_cb = self.r.choice([0, 1, 31, 32, 33, 58, 59, 60, 63, 64, 65, 127, 128, 199, 200, self.r.randrange(201)])
            op["cbdata"] = [self.r.choice([0, 0x80, 0xFF, 0xFE, self.r.randrange(256)]) for _ in range(n_cb)]
        if self.opts["p_same_cb"] and self.r.random() < self.opts["p_same_cb"]:
            sibs = [self.L[l] for l in self.order if self.L[l].parent == p.label and self.L[l].miner is not None]
            if sibs:
                s = self.r.choice(sibs)
                op["miner"], op["cbdata"] = s.miner, s.cbdata
        if self.r.random() < self.opts["p_unusual"]:
            u = self.r.randrange(6)
            if u in (0, 4, 5):
                # legal but unusual rewards: less than allowed, several outputs, no output at all, outputs worth nothing
                shapes = ["less", "split", "none", "many"]
                if self.opts.get("zero_rewards"):        # outputs worth nothing exist only where the check's own model copes with them
                    shapes += ["zero_extra", "zero_only", "zero_extra"]
                op["reward"] = {"shape": self.r.choice(shapes)}
            elif u == 1:
                op["now_off"] = -30                      # timestamp exactly 30 s ahead of the validator's clock: legal
            elif u == 2:
                op["now_off"] = self.r.choice([0, 1, 1000, 10 ** 6])
            else:
                op["cbdata"] = "d" * 200                 # maximal reward data: legal
        return op, fees

    def copy_candidate(self, p, avail):
        """a transaction already used on another fork whose inputs are all unspent (and unused) here"""
        av = {a[0] for a in avail}
        cands = []
        for name, (d, fee, home) in sorted(self.txdef.items()):
            if home in p.chain:
                continue
            if all(tuple(i) in av for i in d["ins"]):
                cands.append((name, d, fee))
        return self.r.choice(cands) if cands else None

    def commit(self, op, fees):
        """apply an (expected-accepted) block op to the label-level ledger"""
        p = self.L[op["parent"]]
        label = op["label"]
        u = dict(p.utxo)
        names = [label + ".0"]
        for t in op["txs"]:
            if "copy" in t:
                d = self.txdef[t["copy"]][0]
                name = t["copy"]
            else:
                d, name = t, t["name"]
                tin = sum(p.utxo[tuple(i)][0] for i in d["ins"])
                self.txdef[name] = (d, tin - sum(v for v, _ in d["outs"]), label)
            for i in d["ins"]:
                del u[tuple(i)]
            for oi, (v, k) in enumerate(d["outs"]):
                u[(name, oi)] = (v, k)
            names.append(name)
        height = p.height + 1
        value = subsidy(height) + fees
        shape = op.get("reward", {}).get("shape", "one")
        m = op["miner"]
        if shape == "one":
            u[(label + ".0", 0)] = (value, m)
        elif shape == "split":
            u[(label + ".0", 0)] = (value // 3, m)
            u[(label + ".0", 1)] = (value - value // 3, (m + 1) % N_KEYS)
        elif shape == "less":
            u[(label + ".0", 0)] = (value // 2, m)
        elif shape == "zero_extra":
            u[(label + ".0", 0)] = (value, m)
            u[(label + ".0", 1)] = (0, (m + 1) % N_KEYS)
        elif shape == "zero_only":
            u[(label + ".0", 0)] = (0, m)
        elif shape == "many":
            q = value // 5
            for j in range(4):
                u[(label + ".0", j)] = (q, (m + j) % N_KEYS)
            u[(label + ".0", 4)] = (value - 4 * q, m)
        ts = p.ts + op["dt"]
        n = Lbl(label, p.label, height, ts, self.target_at(p, ts), u, p.chain + (label,), names, len(self.order))
        n.miner, n.cbdata = op["miner"], op.get("cbdata", label)
        p.nkids += 1
        self.L[label] = n
        self.order.append(label)
        return n

    # ------------------------------------------------------------ mutations (each: one broken rule)
    def mutate(self, op, fees, cats):
        """-> (op', tag) ; op' is a deep-ish copy with exactly one rule broken; None if not applicable"""
        import copy
        p = self.L[op["parent"]]
        o = copy.deepcopy(op)
        o.pop("now_off", None)
        o.pop("reward", None)
        r = self.r
        cat = r.choice(cats)
        own = [t for t in o["txs"] if "copy" not in t]
        spendable = sorted((ref, ov) for ref, ov in p.utxo.items() if ov[1] is not None and ov[0] >= 1)
        used = {tuple(i) for t in own for i in t["ins"]}
        free = [s for s in spendable if s[0] not in used]
        label = o["label"]

        def newtx(ins, outs, **kw):
            t = {"name": "%s.%d" % (label, len(o["txs"]) + 1), "ins": [list(i) for i in ins], "outs": outs}
            t.update(kw)
            o["txs"].append(t)
            return t

        if cat == "C01":
            tags = ["missing", "spent", "other_fork", "twice_in_tx", "twice_in_block", "created_in_block", "wrong_key",
                    "out_changed", "in_added", "in_dropped", "ins_swapped", "ref_changed", "sig_from_input", "sig_from_tx",
                    "sig_placeholder_se", "sig_placeholder_cb", "sig_flip", "null_ref"]
            tag = r.choice(tags)
            if tag == "missing":
                newtx([["@x" + label, r.randrange(3)]], [[r.randint(1, 1000), r.randrange(N_KEYS)]], signers=[r.randrange(N_KEYS)])
            elif tag == "spent":
                gone = []
                for a in p.chain[:-1]:
                    for ref, ov in self.L[a].utxo.items():
                        if ref not in p.utxo and ov[1] is not None:
                            gone.append((ref, ov))
                if not gone:
                    return None
                ref, ov = r.choice(sorted(gone))
                newtx([ref], [[max(1, ov[0] - r.choice([0, 1])), r.randrange(N_KEYS)]], signers=[ov[1]])
            elif tag == "other_fork":
                anc = set()
                for a in p.chain:
                    anc.update(self.L[a].utxo.keys())
                other = []
                for l in self.order:
                    if l not in p.chain:
                        for ref, ov in self.L[l].utxo.items():
                            if ref not in anc and ov[1] is not None:
                                other.append((ref, ov))
                if not other:
                    return None
                ref, ov = r.choice(sorted(other))
                newtx([ref], [[ov[0], r.randrange(N_KEYS)]], signers=[ov[1]])
            elif tag == "twice_in_tx":
                if not free:
                    return None
                ref, ov = r.choice(free)
                newtx([ref, ref], [[ov[0], r.randrange(N_KEYS)]])
            elif tag == "twice_in_block":
                if own:
                    t = r.choice(own)
                    ref = tuple(r.choice(t["ins"]))
                    ov = p.utxo[ref]
                elif free:
                    ref, ov = r.choice(free)
                    newtx([ref], [[ov[0], r.randrange(N_KEYS)]])
                else:
                    return None
                extra = [x for x in free if x[0] != ref and list(x[0]) not in [i for t in o["txs"] if "copy" not in t for i in t["ins"]]]
                if extra and r.random() < 0.5:
                    # PARTIAL overlap: the second spender also consumes a fresh output
                    ref2, ov2 = r.choice(extra)
                    newtx([ref, ref2], [[max(1, ov[0] + ov2[0] - 1), r.randrange(N_KEYS)]])
                else:
                    newtx([ref], [[max(1, ov[0] - 1), r.randrange(N_KEYS)]])
            elif tag == "created_in_block":
                if not own:
                    if not free:
                        return None
                    ref, ov = r.choice(free)
                    own = [newtx([ref], [[ov[0], r.randrange(N_KEYS)]])]
                t = r.choice(own)
                oi = r.randrange(len(t["outs"]))
                v, k = t["outs"][oi]
                newtx([[t["name"], oi]], [[v, r.randrange(N_KEYS)]], signers=[k])
            elif tag == "null_ref":
                if not free:
                    return None
                ref, ov = r.choice(free)
                newtx([ref, ["@null", 0]], [[ov[0], r.randrange(N_KEYS)]], signers=[ov[1], ov[1]])
            else:
                if not own:
                    if not free:
                        return None
                    k = min(len(free), r.choice([1, 2, 2, 3]))
                    ins = r.sample(free, k)
                    tot = sum(ov[0] for _, ov in ins)
                    own = [newtx([i[0] for i in ins], [[tot - 1, r.randrange(N_KEYS)], [1, r.randrange(N_KEYS)]])]
                t = r.choice(own)
                nin = len(t["ins"])
                if tag in ("out_changed", "in_added", "ref_changed", "in_dropped", "ins_swapped") and r.random() < 0.5:
                    t["sign_with"] = "code"
                if tag == "wrong_key":
                    owners = [p.utxo[tuple(i)][1] for i in t["ins"]]
                    j = r.randrange(nin)
                    owners[j] = (owners[j] + r.randrange(1, N_KEYS)) % N_KEYS
                    t["signers"] = owners
                elif tag == "out_changed":
                    oi = r.randrange(len(t["outs"]))
                    v, k = t["outs"][oi]
                    if r.random() < 0.5 and v > 1:
                        t["post"] = [["set_out", oi, v - 1, None]]
                    else:
                        t["post"] = [["set_out", oi, None, (k + r.randrange(1, N_KEYS)) % N_KEYS]]
                elif tag == "in_added":
                    extra = [s for s in free if list(s[0]) not in t["ins"]]
                    if not extra:
                        return None
                    ref, ov = r.choice(extra)
                    t["post"] = [["add_in", list(ref), ov[1]]]
                elif tag == "in_dropped":
                    if nin < 2:
                        return None
                    t["post"] = [["drop_in", r.randrange(nin)]]
                    t["outs"] = [[1, t["outs"][0][1]]]
                elif tag == "ins_swapped":
                    if nin < 2:
                        return None
                    t["post"] = [["swap_ins", 0, nin - 1]]
                elif tag == "ref_changed":
                    extra = [s for s in free if list(s[0]) not in t["ins"]]
                    if not extra:
                        return None
                    ref, ov = r.choice(extra)
                    t["post"] = [["set_ref", r.randrange(nin), list(ref)]]
                elif tag == "sig_from_input":
                    if nin < 2:
                        return None
                    t["post"] = [["sig_from", 0, nin - 1]]
                elif tag == "sig_from_tx":
                    others = sorted(n for n in self.txdef)
                    if not others:
                        return None
                    t["post"] = [["sig_from_tx", r.randrange(nin), r.choice(others), r.randrange(3)]]
                elif tag == "sig_placeholder_se":
                    t["post"] = [["sig_placeholder", r.randrange(nin), "se"]]
                elif tag == "sig_placeholder_cb":
                    t["post"] = [["sig_placeholder", r.randrange(nin), "cb"]]
                elif tag == "sig_flip":
                    t["post"] = [["sig_flip", r.randrange(nin), r.randrange(512)]]
            return o, "C01:" + tag

        if cat == "C02":
            tags = ["reward+1", "reward+big", "reward_wrong_fees", "out_zero", "out_over_max", "out_u64max", "outs_exceed_inputs", "total_over_max", "reward_wraparound"]
            tag = r.choice(tags)
            if tag == "reward+1":
                o["reward"] = {"delta": 1, "shape": r.choice(["one", "split"])}
            elif tag == "reward+big":
                o["reward"] = {"delta": r.choice([2, 1000, 10 ** 9, MAX_SASHIMI])}
            elif tag == "reward_wraparound":
                # outputs [2^64 - x, allowed + x]: the sum equals the allowed amount only if amounts wrap around / are read as signed
                o["reward"] = {"delta": 0, "shape": "wrap", "x": r.choice([1, 1000, 10 ** 12, 1 << 62])}
            elif tag == "reward_wrong_fees":
                # fees as another state would compute them: claims more than this block's transactions leave
                o["reward"] = {"delta": r.choice([1, 5000, 123456789])}
                if not own:
                    return None
            else:
                if not free:
                    return None
                k = min(len(free), r.choice([1, 2]))
                ins = r.sample(free, k)
                tot = sum(ov[0] for _, ov in ins)
                if tag == "out_zero":
                    outs = [[0, r.randrange(N_KEYS)], [tot, r.randrange(N_KEYS)]]
                    if r.random() < 0.3:
                        outs = [[0, r.randrange(N_KEYS)]]
                elif tag == "out_over_max":
                    outs = [[MAX_SASHIMI + 1, r.randrange(N_KEYS)]]
                elif tag == "out_u64max":
                    outs = [[(1 << 64) - 1, r.randrange(N_KEYS)]]
                elif tag == "outs_exceed_inputs":
                    outs = [[tot, r.randrange(N_KEYS)], [1, r.randrange(N_KEYS)]] if r.random() < 0.5 else [[tot + 1, r.randrange(N_KEYS)]]
                else:
                    outs = [[MAX_SASHIMI, r.randrange(N_KEYS)], [1, r.randrange(N_KEYS)]]
                newtx([i[0] for i in ins], outs)
                # the reward must not claim the (negative) pseudo-fee
            return o, "C02:" + tag

        if cat == "C05":
            h = p.height + 1
            boundary = h % self.period == 0
            tags = ["target+1", "target-1", "height+1", "height-1", "cb_height+1", "cb_height-1", "ts=parent", "ts<parent",
                    "future31", "pow_bad", "ev0", "ev1", "ev2", "ev_sibling", "ev_forged_summary", "unknown_parent", "merkle_other",
                    "unretargeted" if boundary else "retargeted_anyway"]
            if boundary:
                tags += ["target_other_chain"] * 4
            tags += list(self.opts.get("c05_extra_tags") or [])
            tag = r.choice(tags)
            best = self.best()
            if boundary and p.label not in best.chain and r.random() < 0.6:
                tag = "target_other_chain"           # candidate on a NON-head branch at a boundary: the telling case
            hdr = o.setdefault("hdr", {})
            if tag == "target+1":
                if self.target_at(p, p.ts + o["dt"]) >= TWO256 - 1:
                    return None
                hdr["target"] = ["delta", 1]
            elif tag == "target-1":
                hdr["target"] = ["delta", -1]
            elif tag in ("unretargeted", "retargeted_anyway"):
                hdr["target"] = [tag]
                if tag == "unretargeted" and self.target_at(p, p.ts + o["dt"]) == p.target:
                    return None
                if tag == "retargeted_anyway":
                    if h - self.period < 0:
                        return None
                    alt = min(p.target * max(1, p.ts + o["dt"] - self.start_ts(p, h - self.period)) // self.timespan, TWO256 - 1)
                    if alt == p.target or alt < TARGET_FLOOR:
                        return None
            elif tag == "target_other_chain":
                # the target the rule would prescribe from ANOTHER branch's interval start (not the block's own ancestors)
                sh = h - self.period
                if sh < self.base_h:
                    return None
                mine = p.chain[sh - self.base_h]
                others = sorted({self.L[l].chain[sh - self.base_h] for l in self.order
                                 if self.L[l].height >= sh and self.L[l].chain[sh - self.base_h] != mine})
                if not others:
                    return None
                start = self.L[r.choice(others)]
                if best.height >= sh and best.chain[sh - self.base_h] != mine and r.random() < 0.8:
                    start = self.L[best.chain[sh - self.base_h]]          # the interval start of the ACTIVE chain
                ts = p.ts + o["dt"]
                alt = min(p.target * max(1, ts - start.ts) // self.timespan, TWO256 - 1)
                if alt == self.target_at(p, ts) or alt < TARGET_FLOOR:
                    return None
                hdr["target"] = ["hex", "%064x" % alt]
            elif tag == "height+1":
                hdr["height"] = 1
                hdr["cb_height"] = 1
            elif tag == "height-1":
                hdr["height"] = -1
                hdr["cb_height"] = -1
            elif tag == "cb_height+1":
                hdr["cb_height"] = 1
            elif tag == "cb_height-1":
                hdr["cb_height"] = -1
            elif tag == "ts=parent":
                if boundary:
                    return None
                hdr["ts"] = "parent"
            elif tag == "ts<parent":
                if boundary:
                    return None
                hdr["ts"] = "parent-1"
            elif tag == "future31":
                o["now_off"] = -31
            elif tag == "pow_bad":
                if self.target_at(p, p.ts + o["dt"]) >= (1 << 255):
                    return None
                hdr["pow"] = "bad"
            elif tag in ("ev0", "ev1", "ev2"):
                hdr["evidence"] = [int(tag[2]), r.randrange(256)]
            elif tag == "ev_forged_summary":
                hdr["evidence"] = ["forged_summary"]
            elif tag == "ev_sibling":
                sibs = [l for l in self.order if self.L[l].parent == p.label]
                if not sibs:
                    return None
                hdr["evidence"] = ["sibling", r.choice(sibs)]
            elif tag == "unknown_parent":
                hdr["prev"] = "unknown"
            elif tag == "merkle_other":
                hdr["merkle"] = "other"
            return o, "C05:" + tag

        if cat == "S":
            tag = r.choice(["no_transactions", "first_not_reward", "second_reward", "duplicate_transaction", "cb_two_inputs",
                            "cb_sig_type", "cb_data_201", "oversize"])
            if tag == "duplicate_transaction" and not o["txs"]:
                return None
            o["struct"] = tag
            return o, "S:" + tag
        raise ValueError(cat)
