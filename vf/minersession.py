"""Runs the REAL MinerWatcher.__call__ (start-up, message loop, shutdown/`finally` path) as one miner *session* against a
simulated node: the mining processes are replaced by a scripted queue that answers every candidate with its summary hash
(exactly what Miner.__call__ does), the networking thread by the simnet node, and the wallet lives in wallet.json of the
current directory, as in production.  Faults are injected in the ENVIRONMENT (the disk interface raising as a full disk
does), never in the code under test."""
from vf import env


class _Q:
    def __init__(self):
        self.items = []

    def put(self, x):
        self.items.append(x)


class _Process:
    def __init__(self, *a, **k):
        pass

    def start(self):
        pass

    def join(self):
        pass


class _NT:
    def __init__(self, lp):
        self.local_peer = lp
        self.stopped = 0

    def stop(self):
        self.stopped += 1

    def join(self):
        pass


class _Script:
    """recv_queue of the watcher: request a candidate, answer it, ... until `finds` blocks were found (or a fault ended the
    loop); then the operator presses Ctrl-C"""

    def __init__(self, session, C, simnet, finds, nonce0, max_tries=60_000):
        self.s, self.C, self.simnet = session, C, simnet
        self.finds = finds
        self.nonce = nonce0
        self.tries = 0
        self.max_tries = max_tries
        self.pending = None

    def get(self):
        s = self.s
        mw = s.mw
        s.observe()
        if self.pending is not None:
            summary, height = self.pending
            self.pending = None
            return (0, "scrypt_output", self.C.construct_summary_hash(summary, height))
        if s.found >= self.finds or self.tries >= self.max_tries:
            raise KeyboardInterrupt()
        q = mw.send_queues[0] if mw.send_queues else None
        if q is not None and q.items:
            mt, data = q.items[-1]
            del q.items[:]
            if mt == "scrypt_input":
                self.pending = data
                return self.get()
        self.tries += 1
        self.nonce = (self.nonce + 1) & 0xFFFFFFFF
        if self.tries % 50 == 0:
            self.simnet.CLOCK.now += 1
        return (0, "request_scrypt_input", self.nonce)


class _ThreadProcess:
    """stands in for multiprocessing.Process: the REAL miner loop (mining.run_miner -> Miner.__call__) runs in a daemon thread
    of this interpreter, talking to the watcher through real queues"""

    def __init__(self, target=None, args=(), daemon=True, **kw):
        import threading
        self.t = threading.Thread(target=self._run, args=(target, args), daemon=True)

    @staticmethod
    def _run(target, args):
        try:
            target(*args)
        except BaseException:
            pass                                   # the poison message makes the miner exit(1); the watcher's own errors are observed elsewhere

    def start(self):
        self.t.start()

    def join(self):
        self.t.join(2)


class _StopQueue:
    """the watcher's receive queue when the real miner loop runs: a real queue; the operator presses Ctrl-C once `finds` blocks
    were found or nothing arrived for a while (the miner loop died)"""

    def __init__(self, session, finds, max_messages=400_000):
        import queue
        self.q = queue.Queue()
        self.s, self.finds, self.n, self.max = session, finds, 0, max_messages

    def put(self, x):
        self.q.put(x)

    def get(self):
        import queue
        self.s.observe()
        self.n += 1
        if self.n % 100 == 0:
            self.s.simnet.CLOCK.now += 1                  # the clock moves on while the miner works
        if self.s.found >= self.finds or self.n > self.max:
            raise KeyboardInterrupt()
        try:
            return self.q.get(timeout=20)
        except queue.Empty:
            self.s.stalled = True
            raise KeyboardInterrupt()


class Session:
    def __init__(self, MI, C, simnet, node, finds, nonce0, fault=None, real_miner=False):
        self.real_miner = real_miner
        self.stalled = False
        self.output = ""
        self.MI, self.C, self.simnet, self.node = MI, C, simnet, node
        self.handed = []            # keys the watcher held as "the key to pay to", in order of first appearance
        self.found = 0
        self.fault = fault          # None | ("save_block" | "flush_blocks", index of the find at which the disk is full)
        self.fault_fired = False
        self.script = _Script(self, C, simnet, finds, nonce0)
        self.head0 = node.cm.coinstate.current_chain_hash
        self.heads = [self.head0]
        self.raised = None

    def observe(self):
        mw = self.mw
        pk = getattr(mw, "public_key", None)
        if pk is not None and (not self.handed or self.handed[-1] != pk):
            self.handed.append(pk)
        h = self.node.cm.coinstate.current_chain_hash
        if h != self.heads[-1]:
            self.heads.append(h)
            self.found += 1

    def run(self):
        MI, node = self.MI, self.node
        mw = MI.MinerWatcher.__new__(MI.MinerWatcher)
        self.mw = mw

        class A:
            quiet = True
            n = 1
            freshness = 10 ** 12
            dont_listen = True
        mw.args = A()
        mw.recv_queue = _StopQueue(self, self.script.finds) if self.real_miner else self.script
        mw.send_queues = []
        mw.processes = []
        mw.hash_stats = {}
        mw.balance = mw.start_balance = 0
        mw.mining_args = {}
        mw.log_silencer = []
        nt = _NT(node.lp)
        disk = node.lp.disk_interface
        orig = {n: getattr(disk, n) for n in ("save_block", "flush_blocks")}
        sess = self

        def faulty(name):
            def f(*a):
                if sess.fault and sess.fault[0] == name and sess.found_now() == sess.fault[1] and not sess.fault_fired:
                    sess.fault_fired = True
                    raise OSError(28, "No space left on device")
                return orig[name](*a)
            return f
        names = ["configure_logging_from_args", "check_chain_dir", "read_chain_from_disk", "start_networking_peer_in_background",
                 "wait_for_fresh_chain", "Process", "Queue", "MAX_KNOWN_HASH_HEIGHT", "time"]
        for n in names + ["open_or_init_wallet", "save_wallet"]:
            if not hasattr(MI, n):
                raise env.HarnessError("mining.%s missing" % n)
        saved = {n: getattr(MI, n) for n in names}
        if hasattr(MI, "sleep"):
            saved["sleep"] = MI.sleep
            MI.sleep = lambda sec: setattr(self.simnet.CLOCK, "now", self.simnet.CLOCK.now + 1)
        MI.configure_logging_from_args = lambda args: None
        MI.check_chain_dir = lambda: None
        MI.read_chain_from_disk = lambda: node.cm.coinstate
        MI.start_networking_peer_in_background = lambda args, cs: nt
        MI.wait_for_fresh_chain = lambda *a, **k: None
        MI.Process = _ThreadProcess if self.real_miner else _Process
        if self.real_miner:
            import queue
            import random as _random
            MI.Queue = queue.Queue
            if hasattr(MI, "random"):
                saved["random"] = MI.random
                MI.random = _random.Random(self.script.nonce)          # the miner's starting nonce is drawn from the case, not from the OS
        else:
            MI.Queue = _Q
        MI.MAX_KNOWN_HASH_HEIGHT = -1
        MI.time = lambda: self.simnet.CLOCK.now
        disk.save_block, disk.flush_blocks = faulty("save_block"), faulty("flush_blocks")
        import io
        import sys
        try:
            old_stdout, sys.stdout = sys.stdout, io.StringIO()
            try:
                mw()
            finally:
                self.output, sys.stdout = sys.stdout.getvalue(), old_stdout
                for q in list(getattr(mw, "send_queues", [])):
                    if self.real_miner:
                        q.put(("stop", None))          # the miner loop exits on an unexpected message
        except SystemExit as e:
            self.raised = e
        except Exception as e:          # the watcher's loop catches everything; an exception here left __call__ itself
            self.raised = e
        finally:
            for n, v in saved.items():
                setattr(MI, n, v)
            del disk.save_block, disk.flush_blocks
            self.observe()
        return self

    def found_now(self):
        """index of the find in progress (the disk is written after the head has moved to the found block)"""
        return len(self.heads) - 1
