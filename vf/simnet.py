"""Deterministic in-process network simulator (DESIGN.md 3.5): fake sockets / selector / clock / fabric.  The node's real
handlers are driven: LocalPeer.handle_remote_peer_selector_event, handle_incoming_connection, step_managers.
The harness owns time, transport and schedule; nothing in the handlers, managers, message codecs or stores is replaced."""
import logging
import selectors

from vf import env

env.import_networking()
import skepticoin.networking.remote_peer as RP      # noqa: E402
import skepticoin.networking.local_peer as LP       # noqa: E402
import skepticoin.networking.manager as MG          # noqa: E402
import skepticoin.networking.disk_interface as DI   # noqa: E402
import skepticoin.blockstore as BS                  # noqa: E402
from skepticoin.networking import messages as M     # noqa: E402


class Clock:
    now = 1_700_000_000


CLOCK = Clock()
_real_socket = LP.socket


class Sim:
    current = None   # node currently executing (sockets created by the code belong to it)


class FakeSock:
    n = 0

    def __init__(self, node=None):
        FakeSock.n += 1
        self.id = FakeSock.n
        self.node = node if node is not None else Sim.current
        self.peer = None           # other endpoint
        self.inflight = b""        # bytes sent by the peer, not yet readable (the network)
        self.readable = b""
        self.closed = False
        self.eof_pending = False   # the other side closed
        self.refused = False
        self.established = False
        self.remote_addr = None
        self.peername = None
        self.partial = None        # max bytes accepted by the next send (schedule-chosen)
        self.sent_total = 0

    def setblocking(self, x):
        pass

    def fileno(self):
        return 1000 + self.id

    def connect_ex(self, addr):
        self.remote_addr = addr
        host = str(addr[0])
        never = host == "255.255.255.255" or host.split(".")[0] in ("224", "239", "0")      # multicast / broadcast / "this network":
        if never or tuple(addr) in getattr(self.node.net, "unreachable", ()):                # the kernel refuses at once
            # no route / interface down: the non-blocking connect fails AT ONCE (ENETUNREACH); the socket then reports
            # readable and recv() raises, like a real one
            self.refused = True
            self.node.net.failed_connects.append(self)
            return 101
        self.node.net.pending_connects.append(self)
        return 115

    def connect(self, addr):
        """the raising form of connect_ex: a non-blocking socket reports "in progress" as BlockingIOError and a synchronous
        failure (no route) as OSError"""
        rc = self.connect_ex(addr)
        if rc == 115:
            raise BlockingIOError(115, "Operation now in progress")
        if rc:
            raise OSError(rc, "Network is unreachable")

    def setsockopt(self, *a):
        pass

    def settimeout(self, x):
        pass

    def getsockopt(self, level, opt, *a):
        return 111 if self.refused else 0          # SO_ERROR

    def shutdown(self, how):
        pass

    def sendall(self, b):
        """on a non-blocking socket: writes what fits, then raises if something is left"""
        k = self.send(b)
        if k < len(b):
            raise BlockingIOError(11, "Resource temporarily unavailable")

    def getpeername(self):
        return self.peername

    def recv(self, n):
        if self.closed:
            raise OSError(9, "Bad file descriptor")
        if self.refused:
            raise ConnectionRefusedError(111, "Connection refused")
        d, self.readable = self.readable[:n], self.readable[n:]
        return d

    def send(self, b):
        if self.closed:
            raise OSError(9, "Bad file descriptor")
        if self.peer is None or self.peer.closed:
            raise BrokenPipeError(32, "Broken pipe")
        k = len(b) if self.partial is None else max(1, min(len(b), self.partial))
        self.partial = None
        self.peer.inflight += b[:k]
        self.sent_total += k
        return k

    def close(self):
        self.closed = True
        if self.peer is not None:
            self.peer.eof_pending = True

    def __repr__(self):
        return "S%d@%s" % (self.id, self.node.name if self.node else "?")


class ListenSock:
    def __init__(self, node):
        self.node = node
        self.backlog = []

    def accept(self):
        conn = self.backlog.pop(0)
        return conn, conn.peername


class FakeKey:
    def __init__(self, fileobj, data):
        self.fileobj = fileobj
        self.data = data


class FakeSelector:
    """register/modify/unregister/get_map with the real error behaviour for unknown keys"""

    def __init__(self):
        self.map = {}

    def register(self, sock, events, data=None):
        if sock in self.map:
            raise KeyError("%r is already registered" % sock)
        self.map[sock] = (events, data)

    def unregister(self, sock):
        if sock not in self.map:
            raise KeyError("%r is not registered" % sock)
        del self.map[sock]

    def modify(self, sock, events, data=None):
        if sock not in self.map:
            raise KeyError("%r is not registered" % sock)
        self.map[sock] = (events, data)

    def get_map(self):
        return self.map

    def close(self):
        pass


class SockMod:
    AF_INET = 2
    SOCK_STREAM = 1
    SOL_SOCKET = 1
    SO_REUSEADDR = 2

    @staticmethod
    def socket(*a):
        return FakeSock()


def install(rnd=None):
    """patch clocks, RNGs and the socket module of the networking modules (asserting that the targets exist)"""
    for mod, name in ((RP, "time"), (LP, "time"), (LP, "socket"), (MG, "random"), (RP, "random"), (LP, "random")):
        if not hasattr(mod, name):
            raise env.HarnessError("patch target %s.%s missing" % (mod.__name__, name))
    RP.time = lambda: CLOCK.now
    LP.time = lambda: CLOCK.now
    LP.socket = SockMod
    if rnd is not None:
        MG.random = rnd
        RP.random = rnd
        LP.random = rnd
    logging.disable(logging.CRITICAL)


class RecDisk(DI.DiskInterface):
    """records instead of touching the disk (C10, C11, C13, C19 variants override further)"""

    def __init__(self):
        super().__init__()
        self.bad_tx = []
        self.blocks = []
        self.flushes = 0
        self.peers_written = []

    def save_transaction_for_debugging(self, t):
        self.bad_tx.append(t)

    def save_block(self, b):
        self.blocks.append(b)

    def flush_blocks(self):
        self.flushes += 1

    def write_peers(self, p):
        self.peers_written.append((p.host, p.port, p.direction))

    def load_peers(self):
        return {}


class StoreDisk(DI.DiskInterface):
    """the REAL save_block / flush_blocks (DefaultBlockStore.instance is set per case); only the debug dump and the peer
    file are recorded"""

    def __init__(self):
        super().__init__()
        self.bad_tx = []
        self.peers_written = []

    def save_transaction_for_debugging(self, t):
        self.bad_tx.append(t)

    def write_peers(self, p):
        self.peers_written.append((p.host, p.port, p.direction))

    def load_peers(self):
        return {}


class Node:
    def __init__(self, net, name, host, coinstate, nonce, disk=None, port=2412):
        self.net = net
        self.name = name
        self.host = host
        prev = Sim.current
        Sim.current = self
        try:
            self.lp = LP.LocalPeer(disk_interface=disk or RecDisk())
        finally:
            Sim.current = prev
        try:
            self.lp.selector.close()
        except Exception:
            pass
        self.lp.selector = FakeSelector()
        self.lp.nonce = nonce
        self.lp.running = True
        self.lp.port = port
        self.lp.chain_manager.started_at = CLOCK.now
        self.lp.chain_manager.set_coinstate(coinstate)
        self.lp.logger.setLevel(logging.CRITICAL)
        self.listen = ListenSock(self)
        self.eport = 40000

    @property
    def cm(self):
        return self.lp.chain_manager

    @property
    def nm(self):
        return self.lp.network_manager


class Net:
    def __init__(self):
        self.nodes = {}
        self.pending_connects = []
        self.failed_connects = []
        self.unreachable = set()
        self.escaped = []               # exceptions that left a handler: in production they end LocalPeer.run()
        self.stuck = []                 # (node, lock, handler) -- a lock left held by a handler that returned
        self.handled_messages = 0

    def add(self, name, host, coinstate, nonce, disk=None, port=2412):
        n = Node(self, name, host, coinstate, nonce, disk, port)
        self.nodes[(host, port)] = n           # several nodes may share a host address (one machine / one NAT)
        return n

    def run(self, node, fn, *a):
        prev = Sim.current
        Sim.current = node
        try:
            return fn(*a)
        except BaseException as e:
            if type(e).__module__.startswith("hypothesis") or isinstance(e, (env.HarnessError, MemoryError)):
                raise
            import traceback
            self.escaped.append((node.name, repr(e), traceback.format_exc()[-1500:]))
        finally:
            Sim.current = prev
            self.unstick(node, getattr(fn, "__name__", "event"))

    def call(self, node, fn, *a):
        """a direct API call on a node (exceptions propagate), followed by the held-lock inspection"""
        try:
            return fn(*a)
        finally:
            self.unstick(node, getattr(fn, "__name__", "call"))

    def unstick(self, node, what):
        """The harness runs every node on one thread, so a lock of the node that is still held when a handler has RETURNED
        can never be released by anybody: the next handler that needs it would block for ever (in production: the network
        loop stops).  Recorded in `stuck` and released so that the case can go on."""
        for owner, name in ((getattr(node, "cm", None), "ChainManager.lock"),):
            lk = getattr(owner, "lock", None)
            if lk is not None and hasattr(lk, "locked") and lk.locked():
                self.stuck.append((node.name, name, what))
                try:
                    lk.release()
                except RuntimeError:
                    pass

    # ---- events
    def enabled(self, only=None, connects=True):
        ev = []
        for s in (self.pending_connects if connects else ()):
            ev.append(("connect", s))
        for n in self.nodes.values():
            if only is not None and n not in only:
                continue
            for s, (events, data) in list(n.lp.selector.map.items()):
                if not isinstance(s, FakeSock):
                    continue
                if s.inflight:
                    ev.append(("arrive", s))
                if s.readable or s.refused:
                    ev.append(("read", s))
                elif s.eof_pending and not s.inflight:
                    ev.append(("read", s))   # EOF
                if (events & selectors.EVENT_WRITE) and s.established and not s.refused:
                    ev.append(("write", s))
        return ev

    def do(self, ev, arg=None):
        kind, s = ev
        node = s.node
        if kind == "connect":
            self.pending_connects.remove(s)
            tgt = self.nodes.get((s.remote_addr[0], s.remote_addr[1]))
            if s.closed:
                return
            if tgt is None or arg == "refuse":
                s.refused = True
                return
            tgt.eport += 1
            c = FakeSock(tgt)
            c.peer = s
            s.peer = c
            c.established = s.established = True
            c.peername = (node.host, tgt.eport)
            tgt.listen.backlog.append(c)
            self.run(tgt, tgt.lp.handle_incoming_connection, tgt.listen)
        elif kind == "arrive":
            k = len(s.inflight) if arg is None else max(1, min(arg, len(s.inflight)))
            s.readable += s.inflight[:k]
            s.inflight = s.inflight[k:]
        elif kind == "read":
            if s not in node.lp.selector.map:
                return
            self.run(node, node.lp.handle_remote_peer_selector_event, FakeKey(s, node.lp.selector.map[s][1]), selectors.EVENT_READ)
        elif kind == "write":
            if s not in node.lp.selector.map:
                return
            s.partial = arg
            self.run(node, node.lp.handle_remote_peer_selector_event, FakeKey(s, node.lp.selector.map[s][1]), selectors.EVENT_WRITE)

    def step(self, node, t=None):
        self.run(node, node.lp.step_managers, CLOCK.now if t is None else t)

    def drain(self, rnd=None, limit=200_000, only=None, connects=True):
        """take enabled events until none is left (quiescence); returns the number of events, or -1 when `limit` is hit"""
        n = 0
        while True:
            ev = self.enabled(only, connects)
            if not ev:
                return n
            e = ev[0] if rnd is None else ev[rnd.randrange(len(ev))]
            arg = None
            if rnd is not None and e[0] == "arrive":
                arg = rnd.choice([None, None, 1, 3, 17, 100, 1024])
            if rnd is not None and e[0] == "write":
                arg = rnd.choice([None, None, 1, 7, 500])
            self.do(e, arg)
            n += 1
            if n > limit:
                return -1


# ---------------------------------------------------------------- helpers for scripted peers (the harness plays a peer)

class Wire:
    """the harness's end of a connection to a simulated node: frames and parses messages with the code's own codecs"""

    def __init__(self, net, node, host="10.9.9.9", direction="incoming", port=2412):
        self.net = net
        self.node = node
        self.host = host
        self.msg_id = 0
        self.rx = b""
        self.received = []         # (header, message) parsed from what the node sent us
        if direction == "incoming":                   # we dial the node
            self.sock = FakeSock(node=_Outside(net, host))
            node.eport += 1
            c = FakeSock(node)
            c.peer = self.sock
            self.sock.peer = c
            c.established = self.sock.established = True
            c.peername = (host, node.eport)
            node.listen.backlog.append(c)
            net.run(node, node.lp.handle_incoming_connection, node.listen)
            self.node_sock = c
        else:
            raise NotImplementedError
        self.remote_peer = node.lp.selector.map[self.node_sock][1]

    def hello(self, nonce=12345, my_port=2412, user_agent=b"harness"):
        from ipaddress import IPv6Address
        return M.HelloMessage([M.SupportedVersion(0)], IPv6Address("::FFFF:%s" % self.node.host), 2412, IPv6Address("0::0"), my_port, nonce, user_agent)

    def frame(self, message, in_response_to=0, context=7):
        self.msg_id += 1
        hdr = M.MessageHeader(CLOCK.now & 0xFFFFFFFF, self.msg_id, in_response_to, context)
        data = hdr.serialize() + message.serialize()
        import struct
        return b"MAJI" + struct.pack(">I", len(data)) + data

    def send_raw(self, data):
        """bytes leave the harness peer: they become in-flight towards the node"""
        self.node_sock.inflight += data

    def send(self, message, **kw):
        self.send_raw(self.frame(message, **kw))

    def deliver(self, rnd=None):
        """make everything in flight readable and let the node read it (optionally fragmented by rnd)"""
        self.net.drain(rnd, only=[self.node])
        self.collect()

    def collect(self):
        """parse what the node has sent to us so far"""
        import io
        import struct
        self.rx += self.sock.inflight
        self.sock.inflight = b""
        while len(self.rx) >= 8:
            n = struct.unpack(">I", self.rx[4:8])[0]
            if len(self.rx) < 8 + n:
                break
            f = io.BytesIO(self.rx[8:8 + n])
            hdr = M.MessageHeader.stream_deserialize(f)
            msg = M.Message.stream_deserialize(f)
            self.received.append((hdr, msg))
            self.rx = self.rx[8 + n:]
        return self.received

    def greet(self, nonce=12345, my_port=2412, user_agent=b"harness"):
        """complete the greeting in both directions"""
        self.send(self.hello(nonce, my_port, user_agent))
        self.net.step(self.node)
        self.deliver()

    @property
    def connected(self):
        return self.node_sock in self.node.lp.selector.map and not self.node_sock.closed


class _Outside:
    """pseudo node owning the harness's socket ends (has no selector; never scheduled)"""

    def __init__(self, net, host):
        self.net = net
        self.host = host
        self.name = "harness:" + host
