"""C18 -- checkpoints are enforced and the real network's blocks stay valid (real scrypt)."""
import json
import os

import hypothesis
from hypothesis import given, settings, strategies as st

from vf import env, refmodel as R
from vf.result import Result

ID = "C18"
LEVEL = "exploration"
RULE = ("(1) EVERY checkpointed height (all 327 of the pinned table): a candidate block carrying the checkpoint id passes "
        "validate_block_in_coinstate; Hypothesis-drawn wrong ids at that height (random, one bit off, same prefix / same "
        "suffix) are refused; drawn non-checkpoint heights <= 163,000 are not refused on id grounds; the code's table contains "
        "every pinned entry. (2) deep-state scenario with NOTHING patched (real scrypt, real horizon): on fabricated bases of "
        "height 162,998 and 163,000 candidates at 162,999 / 163,000 / 163,001 behave as skip / refuse / fully validate (bad "
        "target, bad timestamp, altered evidence refused at 163,001 and not at 162,999; honest 163,001 accepted). (3) the built-"
        "in genesis bytes and the five recorded real blocks: id == file name == sha256d(header), genesis id == checkpoint 0, "
        "byte-identical re-encoding, and with the REAL scrypt and the horizon lowered every one passes add_block; evidence == "
        "independent reference evidence with scrypt N=2^15,r=8,p=1. (4) known-answer values of scrypt / blake2b-256 / sha256d "
        "from those blocks. (5) a node whose head is above the horizon refuses a properly mined fork block at a checkpointed height; "
        "the deployed height/length encoding is pinned for every checkpointed height and 7-bit boundary; an alternative history of "
        "10,000 blocks served in bulk download leaves no wrong-id block at a checkpointed height once block 10,000 was handled. "
        "non-trivial = wrong-id candidate at a checkpoint height, deep-state candidate, recorded block; "
        "distinct = (height, id).")
ASSUMPTIONS = ["pinned copies of the checkpoint table and of the recorded blocks in vf/data/ (taken from the pinned commit)",
               "deep bases are fabricated (filler ancestors)", "the scrypt python package with the documented parameters is the arbiter for (3)/(4)"]
MIN_NONTRIVIAL = {"quick": 1500, "thorough": 30000}

DATA = os.path.join(os.path.dirname(os.path.dirname(os.path.abspath(__file__))), "data")


def pinned():
    return json.load(open(os.path.join(DATA, "checkpoints.json"))), json.load(open(os.path.join(DATA, "realblocks.json")))


def real_scrypt(password, salt):
    import scrypt
    return scrypt.hash(password, salt, N=1 << 15, r=8, p=1, buflen=32)


def shards(tier):
    return ([{"kind": "table", "i": i, "n": 6} for i in range(6)] + [{"kind": "deep"}, {"kind": "recorded"}, {"kind": "above_horizon"},
            {"kind": "format"}, {"kind": "ibd"}, {"kind": "ibd_store"}, {"kind": "deep_ibd"}])


def candidate(D, S, height, cid, prev=b"\x11" * 32):
    cb = D.Transaction([D.Input(D.OutputReference(b"\x00" * 32, 0), S.CoinbaseData(height, b"c18"))], [D.Output(1, S.SECP256k1PublicKey(b"\x22" * 64))])
    summ = D.BlockSummary(height, prev, b"\x00" * 32, 1_700_000_000, b"\xff" * 32, 0)
    return D.Block(D.BlockHeader(summ, D.PowEvidence(b"\x00" * 32, b"\x00" * 32, b"\x00" * 32)), [cb], hash=cid)


def run_table(res, tier, seed, shard):
    env.import_repo()
    from skepticoin import datatypes as D, signing as S, consensus as C
    from skepticoin.coinstate import CoinState
    cp, _ = pinned()
    table = {int(k): bytes.fromhex(v) for k, v in cp["known_hashes"].items()}
    cs = CoinState.zero()
    hs = sorted(table)
    mine = [h for k, h in enumerate(hs) if k % shard["n"] == shard["i"]]
    n_wrong = 10 if tier == "quick" else 200
    if C.MAX_KNOWN_HASH_HEIGHT < cp["max_known_hash_height"]:
        res.fail("horizon", "horizon-lowered", "MAX_KNOWN_HASH_HEIGHT=%r < pinned %d" % (C.MAX_KNOWN_HASH_HEIGHT, cp["max_known_hash_height"]), {"horizon": True})

    ghash = cs.current_chain_hash
    deep_cache = {}

    def state_with_parent_at(h):
        """a chain state whose tip sits at height h-1 (fabricated), so that the candidate's parent is PRESENT"""
        if h not in deep_cache:
            from vf import deepbase
            led, tip, dcs = deepbase.make(h - 1, 1_600_000_000, b"\xff" * 32, {}, R.Config())
            deep_cache.clear()
            deep_cache[h] = (dcs, dcs.current_chain_hash)
        return deep_cache[h]

    def verdict(h, cid, parent="unknown"):
        try:
            if parent == "unknown":
                C.validate_block_in_coinstate(candidate(D, S, h, cid), cs)
            elif parent == "genesis":                      # parent present, but NOT at height h-1
                C.validate_block_in_coinstate(candidate(D, S, h, cid, ghash), cs)
            else:                                          # parent present at height h-1
                dcs, tiph = state_with_parent_at(h)
                C.validate_block_in_coinstate(candidate(D, S, h, cid, tiph), dcs)
            return True
        except Exception:
            return False

    for h in mine:
        good = table[h]
        res.evaluations += 1
        if C.KNOWN_HASHES.get(h) is None or bytes.fromhex(C.KNOWN_HASHES[h]) != good:
            res.fail("table", "table-entry-changed", "checkpoint for height %d differs from the pinned table" % h, {"height": h, "id": good.hex()})
        if not verdict(h, good):
            res.fail("checkpoint", "right-id-refused", "candidate with the checkpoint id refused at height %d" % h, {"height": h, "id": good.hex()})
        if h > 0:
            bad = bytes([good[0] ^ 0x40]) + good[1:]
            for parent in ("genesis", "at_h-1"):
                res.evaluations += 1
                res.nontrivial("%d:%s:%s" % (h, parent, bad.hex()[:8]))
                if verdict(h, bad, parent):
                    res.fail("checkpoint", "wrong-id-accepted:parent-" + parent, "candidate with a wrong id accepted at checkpoint height %d when its parent is present in the chain state (%s)" % (h, parent),
                             {"height": h, "id": bad.hex(), "parent": parent})
                # (a candidate whose stored parent is NOT at height h-1 may be refused whatever its id: the property only says
                # which ids may be accepted)
                if (parent == "at_h-1" or h == 1) and not verdict(h, good, parent):
                    res.fail("checkpoint", "right-id-refused:parent-" + parent, "candidate with the checkpoint id refused at height %d (parent %s)" % (h, parent),
                             {"height": h, "id": good.hex(), "parent": parent})
        res.count("checkpoint_heights")

    @hypothesis.seed(env.subseed(seed, ID, "wrong", shard["i"]))
    @settings(max_examples=len(mine) * n_wrong, deadline=None, database=None, suppress_health_check=list(hypothesis.HealthCheck), phases=[hypothesis.Phase.generate])
    @given(st.sampled_from(mine), st.integers(0, 4), st.binary(min_size=32, max_size=32), st.integers(0, 255))
    def wrong(h, mode, rnd32, bit):
        good = table[h]
        if mode == 0:
            cid = rnd32
        elif mode == 1:
            cid = bytearray(good)
            cid[bit >> 3] ^= 1 << (bit & 7)
            cid = bytes(cid)
        elif mode == 2:
            cid = good[:31] + bytes([good[31] ^ (1 + bit % 255)])           # same 31-byte prefix
        elif mode == 3:
            cid = bytes([good[0] ^ (1 + bit % 255)]) + good[1:]            # same 31-byte suffix
        else:
            cid = table[hs[(hs.index(h) + 1 + bit) % len(hs)]]             # the checkpoint id of ANOTHER height
        if cid == good:
            return
        res.evaluations += 1
        res.count("wrong_id_mode%d" % mode)
        res.nontrivial("%d:%s" % (h, cid.hex()))
        if h > 0 and bit % 3 == 0 and verdict(h, cid, "genesis"):
            res.fail("checkpoint", "wrong-id-accepted:parent-genesis", "candidate with id %s accepted at checkpoint height %d (parent present: genesis)" % (cid.hex(), h), {"height": h, "id": cid.hex(), "parent": "genesis"})
        if verdict(h, cid):
            res.fail("checkpoint", "wrong-id-accepted", "candidate with id %s accepted at checkpoint height %d" % (cid.hex(), h), {"height": h, "id": cid.hex()})

    wrong()

    @hypothesis.seed(env.subseed(seed, ID, "free", shard["i"]))
    @settings(max_examples=200 if tier == "quick" else 5000, deadline=None, database=None, suppress_health_check=list(hypothesis.HealthCheck), phases=[hypothesis.Phase.generate])
    @given(st.integers(1, 163_000).filter(lambda h: h not in table), st.binary(min_size=32, max_size=32))
    def free(h, cid):
        res.evaluations += 1
        res.count("non_checkpoint_heights")
        if not verdict(h, cid):
            res.fail("checkpoint", "free-height-refused", "height %d is not checkpointed but a candidate was refused below the horizon" % h, {"height": h, "id": cid.hex(), "free": True})
        # stepping over: a candidate whose stored parent is NOT at height h-1 would let a history jump past checkpointed heights
        # without ever being compared with one (the rule repaired in /repo b7ec09c)
        if h >= 2 and verdict(h, cid, "genesis"):
            res.fail("checkpoint", "height-not-parent+1-accepted:parent-genesis", "a child of the genesis block claiming height %d was accepted below the horizon: a history can step over every checkpoint before %d" % (h, h),
                     {"height": h, "id": cid.hex(), "free": True, "parent": "genesis"})
        res.count("step_over_candidates")
        if cid[0] % 8 == 0 and h + 1 not in table and h >= 2:
            dcs, tiph = state_with_parent_at(h)                 # tip at height h-1; the candidate claims h+1
            try:
                C.validate_block_in_coinstate(candidate(D, S, h + 1, cid, tiph), dcs)
                res.fail("checkpoint", "height-not-parent+1-accepted:parent-deep", "a child of a block at height %d claiming height %d was accepted below the horizon" % (h - 1, h + 1),
                         {"height": h + 1, "id": cid.hex(), "free": True, "parent": "h-2"})
            except Exception:
                pass
            res.count("step_over_candidates")

    free()
    res.exhaustive = True
    res.extra["exhaustive_note"] = "all 327 checkpointed heights enumerated; wrong ids per height are sampled"
    res.sample({"height": mine[0], "right_id": table[mine[0]].hex(), "wrong_ids": "random / 1 bit off / same prefix / same suffix / other checkpoint"})


def run_deep(res, tier, seed):
    """nothing patched: real scrypt, real horizon"""
    env.import_repo()
    from vf import build as b, deepbase
    from skepticoin import consensus as C
    from skepticoin.datatypes import Block
    cfg = R.Config(R.REAL_PERIOD, R.REAL_TIMESPAN, real_scrypt)
    sat = (R.TWO256 - 1).to_bytes(32, "big")
    import skepticoin.hash as H
    if C.scrypt is not H.scrypt:
        raise env.HarnessError("consensus.scrypt is patched in the deep scenario")

    def offer(cs, blk, now):
        skb = Block.deserialize(blk.raw())
        try:
            return cs.add_block(skb, now), None
        except Exception as e:
            return None, e

    scen = []
    for H0 in (162_998, 163_000):
        led, tip, cs = deepbase.make(H0, 1_700_000_000, sat, {}, cfg)
        w = b.World(cfg, uni=led)
        scen.append((H0, w, cs))
    # base 162,998: candidate at 162,999 -- in-state validation skipped below the horizon
    H0, w, cs = scen[0]
    muts = {"honest": {}, "bad_target": {"hdr": {"target": ["delta", -12345]}}, "bad_time": {"hdr": {"ts": "parent-1"}},
            "bad_evidence": {"hdr": {"evidence": [1, 77]}}}
    for name, m in muts.items():
        op = dict({"label": "x_" + name, "parent": "g", "miner": 1, "txs": [], "dt": 100}, **m)
        blk = w.build_block(op, max_tries=50)
        res.evaluations += 1
        res.nontrivial("deep162999:" + name)
        cs2, err = offer(cs, blk, blk.ts + 10_000)
        if cs2 is None:
            res.fail("horizon", "below-horizon-refused:" + name, "candidate (%s) at 162,999 refused: %r -- below the horizon in-state validation is skipped" % (name, err), {"deep": 162_999, "mut": name})
        if name == "honest" and cs2 is not None:
            w.accept("h162999", blk)
            cs_a = cs2
    # candidate at 163,000 on top of it: id cannot equal the checkpoint -> refused
    op = {"label": "x163000", "parent": "h162999", "miner": 2, "txs": [], "dt": 100}
    blk = w.build_block(op, max_tries=50)
    res.evaluations += 1
    res.nontrivial("deep163000")
    cs2, err = offer(cs_a, blk, blk.ts + 10_000)
    if cs2 is not None:
        res.fail("checkpoint", "alternative-163000-accepted", "a freshly mined block at checkpoint height 163,000 (id != checkpoint) was accepted", {"deep": 163_000})
    # base 163,000: candidates at 163,001 are fully validated
    H0, w, cs = scen[1]
    for name, m in muts.items():
        op = dict({"label": "y_" + name, "parent": "g", "miner": 1, "txs": [], "dt": 100}, **m)
        blk = w.build_block(op, max_tries=50)
        res.evaluations += 1
        res.nontrivial("deep163001:" + name)
        cs2, err = offer(cs, blk, blk.ts + 10_000)
        if name == "honest" and cs2 is None:
            res.fail("horizon", "honest-163001-refused", "honest candidate at 163,001 refused: %r" % (err,), {"deep": 163_001, "mut": name})
        if name != "honest" and cs2 is not None:
            res.fail("horizon", "above-horizon-not-validated:" + name, "candidate with %s at 163,001 (first height above the horizon) was accepted" % name, {"deep": 163_001, "mut": name})
    res.sample({"deep_base_heights": [162_998, 163_000], "candidates": sorted(muts), "scrypt": "real", "patched": "nothing"})


def run_above_horizon(res, tier, seed):
    """a node whose head is already ABOVE the horizon is offered a properly mined fork block AT a checkpointed height (its
    parent, at height h-1, is known): the id is not the checkpoint, so it must be refused (real table and horizon; the fast
    scrypt stand-in is used for mining the candidate only)"""
    import immutables
    env.use_fast_pow(horizon=163_000)
    from vf import build as b, deepbase
    from skepticoin.coinstate import CoinState
    from skepticoin.datatypes import Block
    cp, _ = pinned()
    cfg = R.Config()
    sat = (R.TWO256 - 1).to_bytes(32, "big")
    heights = [500, 10_000, 86_500, 162_500, 163_000] if tier == "quick" else sorted(int(k) for k in cp["known_hashes"] if int(k) > 0)[::3] + [163_000]
    for h in heights:
        led_hi, tip_hi, cs_hi = deepbase.make(163_000 + 777, 1_700_000_000, sat, {}, cfg)
        led_lo, tip_lo, cs_lo = deepbase.make(h - 1, 1_699_000_000, sat, {}, cfg)
        hi, lo = cs_hi.current_chain_hash, cs_lo.current_chain_hash
        cs = CoinState(
            block_by_hash=immutables.Map({hi: cs_hi.block_by_hash[hi], lo: cs_lo.block_by_hash[lo]}),
            unspent_transaction_outs_by_hash=immutables.Map({hi: immutables.Map(), lo: immutables.Map()}),
            block_by_height_by_hash=immutables.Map({hi: cs_hi.block_by_height_by_hash[hi], lo: cs_lo.block_by_height_by_hash[lo]}),
            heads=immutables.Map({hi: cs_hi.block_by_hash[hi], lo: cs_lo.block_by_hash[lo]}),
            current_chain_hash=hi)
        w = b.World(cfg, uni=led_lo)
        blk = w.build_block({"label": "fork%d" % h, "parent": "g", "miner": 1, "dt": 50, "txs": []}, max_tries=50)
        res.evaluations += 1
        res.nontrivial("above-horizon:%d" % h)
        if blk.id().hex() == cp["known_hashes"][str(h)]:
            continue
        try:
            cs.add_block(Block.deserialize(blk.raw()), blk.ts + 100)
            ok = True
        except Exception:
            ok = False
        if ok:
            res.fail("checkpoint", "fork-at-checkpoint-accepted-above-horizon", "a node whose head is above the horizon accepted a fork block at checkpointed height %d whose id is not the checkpoint" % h,
                     {"above_horizon": h})
    env.use_real_pow()
    res.sample({"head_above_horizon": 163_777, "fork_blocks_at_checkpoint_heights": heights})


def run_format(res, tier, seed):
    """the network's height / length encoding is pinned: for every checkpointed height (and the neighbours of every 7-bit
    boundary) the code writes exactly the deployed form and reads it back -- a self-consistent change of the encoder AND the
    decoder would silently change the ids of real blocks at those heights"""
    import io
    env.import_repo()
    from skepticoin import serialization as SER, datatypes as D
    cp, _ = pinned()
    hs = sorted({int(k) for k in cp["known_hashes"]} | {max(0, (1 << (7 * j)) + d) for j in range(0, 5) for d in (-1, 0, 1)} | {63, 64, 100, 127, 128, 8191, 8192, 16383, 16384})
    for h in hs:
        res.evaluations += 1
        res.nontrivial("fmt:%d" % h)
        f = io.BytesIO()
        SER.stream_serialize_vlq(f, h)
        got = f.getvalue()
        if got != R.vlq(h):
            res.fail("format", "height-encoding-changed", "height/length %d is written as %s, the deployed network writes %s" % (h, got.hex(), R.vlq(h).hex()), {"format": h})
            continue
        try:
            back = SER.stream_deserialize_vlq(io.BytesIO(R.vlq(h)))
        except Exception as e:
            back = repr(e)
        if back != h:
            res.fail("format", "deployed-height-encoding-refused", "the deployed encoding %s of %d is read back as %r" % (R.vlq(h).hex(), h, back), {"format": h})
        summ = D.BlockSummary(h, b"\x01" * 32, b"\x02" * 32, 5, b"\x03" * 32, 7)
        want = R.RBlock(h, b"\x01" * 32, b"\x02" * 32, 5, b"\x03" * 32, 7, (R.NULL32,) * 3, []).summary_raw()
        if summ.serialize() != want:
            res.fail("format", "summary-encoding-changed", "a block summary at height %d is not encoded as the deployed network encodes it" % h, {"format": h})
    res.sample({"pinned_encodings": len(hs)})


def run_ibd(res, tier, seed):
    """bulk download: a peer serves an ALTERNATIVE history (cheap blocks with a self-declared maximal target, which pass the
    stand-alone checks) as answers to requests, up to height 10,000.  The node compares checkpoints on that path only at
    every 10,000th block; once that block has been handled no block with a wrong id may remain at a checkpointed height."""
    import struct
    from vf import simnet, build as b
    from skepticoin.coinstate import CoinState
    from skepticoin.networking import messages as M
    from skepticoin import consensus as C
    cp, _ = pinned()
    env.use_real_pow()
    simnet.install()
    simnet.CLOCK.now = 1_800_000_000
    net = simnet.Net()
    node = net.add("n", "10.0.0.1", CoinState.zero(), 5)
    node.cm.started_at = -10 ** 9
    w = simnet.Wire(net, node)
    w.greet()
    g = R.dec_block(b.GENESIS)[0]
    prev, ts = g.id(), g.ts
    sat = (R.TWO256 - 1).to_bytes(32, "big")
    top = 10_000
    for h in range(1, top + 1):
        cb = R.RTx([(R.NULL32, 0, ("cb", h, b"alt"))], [(10 ** 9, bytes(64))])
        ts += 1
        blk = R.RBlock(h, prev, cb.id(), ts, sat, h, (R.NULL32,) * 3, [cb])
        prev = blk.id()
        w.msg_id += 1
        hdr = M.MessageHeader(1, w.msg_id, 99, 1).serialize()                  # in_response_to != 0: an answer, as in bulk download
        data = hdr + M.MSG_DATA + b"\x00" + M.DATA_BLOCK + blk.raw()
        w.node_sock.inflight += b"MAJI" + struct.pack(">I", len(data)) + data
        if h % 50 == 0 or h == top:
            net.drain(None, only=[node])
    res.evaluations += top
    cs = node.cm.coinstate
    wrong = [h for h in range(500, top + 1, 500) if h in cs.by_height_at_head() and cs.by_height_at_head()[h].hash().hex() != cp["known_hashes"][str(h)]]
    res.nontrivial("ibd:alt-history-to-%d" % top)
    res.nontrivial("ibd:head-after=%d" % cs.head().height)
    if net.escaped:
        res.fail("ibd", "ibd-exception-escaped", net.escaped[0][1], {"ibd": top})
    if wrong:
        res.fail("checkpoint", "alternative-history-passed-checkpoints-in-bulk-download", "after an alternative history of %d blocks was served in bulk download the active chain holds wrong-id blocks at checkpointed heights %s..%s" % (
            top, wrong[0], wrong[-1]), {"ibd": top})
    res.sample({"bulk_download_alternative_history": top, "head_height_afterwards": cs.head().height})


def run_deep_ibd(res, tier, seed):
    """bulk download AT the last checkpoints: a node whose (fabricated) chain ends one block below a checkpointed height
    (162,500 / 163,000 = the horizon itself) is served, as answers to its requests, a block for that height with a wrong id and
    a successor: nothing patched (real table, real horizon); the wrong-id block must not enter the chain state"""
    from vf import simnet, build as b, deepbase
    from skepticoin.networking import messages as M
    env.use_real_pow()
    simnet.install()
    cp, _ = pinned()
    cfg = R.Config(R.REAL_PERIOD, R.REAL_TIMESPAN, real_scrypt)
    sat = (R.TWO256 - 1).to_bytes(32, "big")
    for top in (163_000, 162_500, 500 * 200):
        led, tip, cs = deepbase.make(top - 1, 1_700_000_000, sat, {}, cfg)
        w = b.World(cfg, uni=led)
        simnet.CLOCK.now = 1_800_000_000
        net = simnet.Net()
        node = net.add("n", "10.0.0.1", cs, 5)
        node.cm.started_at = -10 ** 9
        wire = simnet.Wire(net, node)
        wire.greet()
        prev = "g"
        for j in range(2):
            blk = w.build_block({"label": "f%d" % j, "parent": prev, "miner": 1 + j, "txs": [], "dt": 100}, max_tries=50)
            if blk is None:
                raise env.HarnessError("cannot build the forged block")
            w.accept("f%d" % j, blk)
            prev = "f%d" % j
            wire.send(M.DataMessage(M.DATA_BLOCK, b.to_sk_block(blk)), in_response_to=9)
            wire.deliver()
        res.evaluations += 2
        res.nontrivial("deep_ibd:%d" % top)
        st = node.cm.coinstate
        wrong = [x.height for x in st.block_by_hash.values() if x.height == top and x.hash().hex() != cp["known_hashes"][str(top)]]
        if net.escaped:
            res.fail("ibd", "ibd-exception-escaped", net.escaped[0][1], {"deep_ibd": top})
        if wrong:
            res.fail("checkpoint", "wrong-id-block-at-checkpoint-height:bulk-download", "a node at height %d was served, as answers, a block for checkpointed height %d with a wrong id (and a successor): it entered the chain state" % (top - 1, top), {"deep_ibd": top})
    res.sample({"bulk_download_at_the_last_checkpoints": [163_000, 162_500, 100_000]})


def run_ibd_store(res, tier, seed):
    """the same with the real block store and a RESTART: k forged blocks (heights 1..k, k around the size of an inventory
    batch) are served as answers and sit unflushed in the write buffer when a peer relays, unsolicited, a forged block for the
    checkpointed height k+1 = 500 / 1000.  It is refused; after the node is restarted (state rebuilt from the store) no block
    with a wrong id may sit at a checkpointed height."""
    import struct
    from vf import simnet, build as b
    from skepticoin.coinstate import CoinState
    from skepticoin.networking import messages as M
    from skepticoin import blockstore as BS
    from skepticoin.scripts.utils import read_chain_from_disk
    cp, _ = pinned()
    env.use_real_pow()
    simnet.install()
    old_default = BS.DefaultBlockStore.instance
    g = R.dec_block(b.GENESIS)[0]
    sat = (R.TWO256 - 1).to_bytes(32, "big")
    try:
        plans = [(499, 0), (500, 0), (499, 1), (520, 1)] if tier == "quick" else [(499, 0), (500, 0), (999, 0), (498, 0), (1000, 0), (1499, 0), (499, 1), (520, 1), (1010, 1), (499, 2)]
        for k, gap in plans:
            path = os.path.join(env.fresh_subdir("c18store"), "chain.db")
            with env.quiet():
                store = BS.BlockStore(path)
            BS.DefaultBlockStore.instance = store
            simnet.CLOCK.now = 1_800_000_000
            net = simnet.Net()
            node = net.add("n", "10.0.0.1", CoinState.zero(), 5, disk=simnet.StoreDisk())
            node.cm.started_at = -10 ** 9
            w = simnet.Wire(net, node)
            w.greet()
            prev, ts = g.id(), g.ts
            hdecl = 0
            for pos in range(1, k + 2):
                # gap = 1/2: the forged history never DECLARES a checkpointed height (position 500 calls itself 501 / 502, ...)
                hdecl += 1
                if gap and str(hdecl) in cp["known_hashes"]:
                    hdecl += gap
                h = hdecl
                cb = R.RTx([(R.NULL32, 0, ("cb", h, b"alt"))], [(10 ** 9, bytes(64))])
                ts += 1
                blk = R.RBlock(h, prev, cb.id(), ts, sat, pos, (R.NULL32,) * 3, [cb])
                prev = blk.id()
                w.msg_id += 1
                irt = 99 if pos <= k else 0                             # the last one is relayed unsolicited
                hdr = M.MessageHeader(1, w.msg_id, irt, 1).serialize()
                data = hdr + M.MSG_DATA + b"\x00" + M.DATA_BLOCK + blk.raw()
                w.node_sock.inflight += b"MAJI" + struct.pack(">I", len(data)) + data
                if pos % 50 == 0 or pos >= k:
                    net.drain(None, only=[node])
            # afterwards another peer relays an ordinary block (a cheap competitor at height 1): whatever is still lying in the
            # write buffer is flushed with it
            w2 = simnet.Wire(net, node, host="10.9.9.10")
            w2.greet(nonce=4321)
            cb = R.RTx([(R.NULL32, 0, ("cb", 1, b"late competitor"))], [(10 ** 9, bytes(64))])
            late = R.RBlock(1, g.id(), cb.id(), g.ts + 7, sat, 77, (R.NULL32,) * 3, [cb])
            w2.send(M.DataMessage(M.DATA_BLOCK, b.to_sk_block(late)))
            w2.deliver()
            net.drain(None, only=[node])
            res.evaluations += k + 2
            res.nontrivial("ibd_store:%d:%d" % (k, gap))
            cps = [h for h in range(500, k + 2, 500)]
            live = node.cm.coinstate
            store.close()
            with env.quiet():
                store2 = BS.BlockStore(path)
                BS.DefaultBlockStore.instance = store2
                cs = read_chain_from_disk()
            store2.close()
            for name, st in (("the served chain state", live), ("the chain state rebuilt from the store after a restart", cs)):
                # an active chain that reaches beyond a checkpointed height must contain the checkpoint block at that height
                top = st.head().height
                idx = st.by_height_at_head()
                passed = [c for c in range(500, top + 1, 500) if str(c) in cp["known_hashes"] and (c not in idx or idx[c].hash().hex() != cp["known_hashes"][str(c)])]
                if passed and top > passed[0]:
                    res.fail("checkpoint", "alternative-history-passed-a-checkpoint" + ("-after-restart" if "restart" in name else ""),
                             "%d forged blocks (%s) were served, the last one relayed: the head of %s is at height %d although its chain does not contain the checkpoint block of height %d" % (
                                 k + 1, "declared heights skip the checkpointed ones" if gap else "consecutive heights", name, top, passed[0]), {"ibd_store": k, "gap": gap})
                wrong = [x.height for x in st.block_by_hash.values() if str(x.height) in cp["known_hashes"] and x.hash().hex() != cp["known_hashes"][str(x.height)]]
                if wrong:
                    res.fail("checkpoint", "wrong-id-block-at-checkpoint-height-after-restart" if "restart" in name else "wrong-id-block-at-checkpoint-height",
                             "%d forged blocks served as answers, then a forged block for checkpointed height %d relayed: %s holds a block with a wrong id at checkpointed height(s) %s" % (
                                 k, k + 1, name, sorted(wrong)[:3]), {"ibd_store": k})
            if net.escaped:
                res.fail("ibd", "ibd-exception-escaped", net.escaped[0][1], {"ibd_store": k})
    finally:
        BS.DefaultBlockStore.instance = old_default
    res.sample({"bulk_download_then_relayed_block_then_restart": "k = 499, 500 (quick) / 499, 500, 999, 498, 1000, 1499"})


def run_recorded(res, tier, seed):
    env.import_repo()
    from skepticoin import consensus as C, hash as H
    from skepticoin.datatypes import Block
    from skepticoin.coinstate import CoinState
    from skepticoin.genesis import genesis_block_data
    cp, rb = pinned()
    gen = bytes.fromhex(rb["genesis"])
    if bytes(genesis_block_data) != gen:
        res.fail("genesis", "genesis-bytes-changed", "built-in genesis bytes differ from the pinned copy", {"recorded": "genesis"})
    g = Block.deserialize(gen)
    res.evaluations += 1
    gid = R.sha256d(R.dec_block(gen)[0].header_raw())
    if g.hash() != gid or gid.hex() != cp["known_hashes"]["0"]:
        res.fail("genesis", "genesis-id", "genesis id %s != checkpoint 0" % g.hash().hex(), {"recorded": "genesis"})
    if g.serialize() != gen:
        res.fail("recorded", "recorded-reencode", "genesis does not re-encode byte-identically", {"recorded": "genesis"})
    # lower the horizon so that full validation runs; scrypt stays REAL
    C.MAX_KNOWN_HASH_HEIGHT = -1
    if C.scrypt is not H.scrypt:
        raise env.HarnessError("scrypt patched in the recorded-blocks check")
    cs = CoinState.zero()
    led = R.RefLedger(gen, R.Config(R.REAL_PERIOD, R.REAL_TIMESPAN, real_scrypt))
    # genesis: by-itself validation and evidence
    try:
        C.validate_block_by_itself(g, g.timestamp)
        ev = C.construct_pow_evidence(CoinState.empty(), g.header.summary, 0, g.transactions)
        if ev != g.header.pow_evidence:
            res.fail("genesis", "genesis-evidence", "recomputed genesis evidence differs from the recorded one", {"recorded": "genesis"})
    except Exception as e:
        res.fail("genesis", "genesis-invalid", "genesis fails validation: %r" % e, {"recorded": "genesis"})
    if tuple(led.evidence(led.genesis.blk, None)) != tuple(led.genesis.blk.ev):
        raise env.HarnessError("reference evidence disagrees with the recorded genesis evidence")
    res.nontrivial("genesis")
    for name in sorted(rb["blocks"]):
        raw = bytes.fromhex(rb["blocks"][name])
        res.evaluations += 1
        res.nontrivial(name)
        case = {"recorded": name}
        want_id = name.split("-")[1]
        path = os.path.join(env.REPO, "tests", "testdata", "chain", name)
        if os.path.exists(path) and open(path, "rb").read() != raw:
            res.count("testdata_file_differs_from_pinned_copy")
        blk = Block.deserialize(raw)
        rblk, n = R.dec_block(raw)
        if blk.hash().hex() != want_id or R.sha256d(rblk.header_raw()).hex() != want_id or blk.header.hash().hex() != want_id:
            res.fail("recorded", "recorded-id", "recorded block %s gets id %s" % (name, blk.hash().hex()), case)
        if blk.serialize() != raw:
            res.fail("recorded", "recorded-reencode", "recorded block %s does not re-encode byte-identically" % name, case)
        parent = led.nodes[rblk.prev]
        want_ev = led.evidence(rblk, parent)
        if tuple(want_ev) != tuple(rblk.ev):
            raise env.HarnessError("reference evidence (real scrypt) disagrees with recorded block %s" % name)
        try:
            cs = cs.add_block(blk, blk.timestamp)
        except Exception as e:
            res.fail("recorded", "recorded-block-rejected", "recorded real block %s fails full validation with the real scrypt: %r" % (name, e), case)
            cs = cs.add_block_no_validation(blk)
        led.add(rblk)
        # known answers
        if H.scrypt(rblk.summary_raw(), rblk.height.to_bytes(8, "big")) != rblk.ev[0]:
            res.fail("kat", "scrypt-kat", "hash.scrypt differs from the recorded summary hash of %s" % name, case)
        if H.blake2(rblk.ev[0] + rblk.ev[1] + R.enc_txlist(rblk.txs)) != rblk.ev[2]:
            res.fail("kat", "blake2-kat", "hash.blake2 differs from the recorded evidence hash of %s" % name, case)
        if H.sha256d(rblk.header_raw()).hex() != want_id:
            res.fail("kat", "sha256d-kat", "hash.sha256d differs on %s" % name, case)
    # the real blocks stay valid when a rival branch is the node's current head (the evidence and the target must be
    # derived from the block's OWN ancestors): for every real block k and every fork point j < k a fabricated longer
    # rival branch is made the head first
    from vf import build as b
    names = sorted(rb["blocks"])
    real = [Block.deserialize(bytes.fromhex(rb["blocks"][n])) for n in names]
    for k in range(1, len(real)):
        for j in range(0, k + 1):
            cs2 = CoinState.zero()
            for x in real[:k]:
                cs2 = cs2.add_block_no_validation(x)
            parent = cs2.block_by_hash[real[j - 1].hash()] if j > 0 else cs2.block_by_hash[g.hash()]
            prev, h0, ts0 = parent.hash(), parent.height, parent.timestamp
            for r_ in range(k + 2 - j + 1):
                cb = R.RTx([(R.NULL32, 0, ("cb", h0 + 1 + r_, b"rival%d.%d.%d" % (k, j, r_)))], [(10 ** 9, bytes(64))])
                rb_ = R.RBlock(h0 + 1 + r_, prev, R.merkle_root([cb.id()]), ts0 + 1 + r_, real[0].target, r_, (R.NULL32,) * 3, [cb])
                skb_ = b.to_sk_block(rb_)
                cs2 = cs2.add_block_no_validation(skb_)
                prev = skb_.hash()
            res.evaluations += 1
            res.nontrivial("rival:%d:%d" % (k, j))
            if cs2.current_chain_hash == real[k - 1].hash():
                raise env.HarnessError("rival branch did not become the head")
            try:
                cs2.add_block(real[k], real[k].timestamp)
            except Exception as e:
                res.fail("recorded", "recorded-block-rejected-with-rival-head", "recorded real block %s is refused (%r) when a rival branch forking after height %d is the current head" % (names[k], e, j),
                         {"recorded": names[k], "rival_fork": j})
    # ... and when a rival block was seen FIRST at some height j, so that the real blocks from j on arrive on a branch that is
    # not the head and overtake it: every real block, including the later ones whose chain sample reaches back to height j,
    # must still pass full validation (arrivals through add_block, in order)
    for j in range(1, len(real) + 1):
        cs3 = CoinState.zero()
        ok = True
        for x in real[:j - 1]:
            cs3 = cs3.add_block(x, x.timestamp)
        parent = cs3.block_by_hash[real[j - 2].hash()] if j > 1 else cs3.block_by_hash[g.hash()]
        cb = R.RTx([(R.NULL32, 0, ("cb", parent.height + 1, b"first-seen rival %d" % j))], [(10 ** 9, bytes(64))])
        rv = R.RBlock(parent.height + 1, parent.hash(), R.merkle_root([cb.id()]), parent.timestamp + 1, real[0].target, j, (R.NULL32,) * 3, [cb])
        cs3 = cs3.add_block_no_validation(b.to_sk_block(rv))
        for x in real[j - 1:]:
            res.evaluations += 1
            res.nontrivial("rival-first:%d:%d" % (j, x.height))
            try:
                cs3 = cs3.add_block(x, x.timestamp)
            except Exception as e:
                res.fail("recorded", "recorded-block-rejected-after-first-seen-rival", "a rival block was seen first at height %d; the recorded real block at height %d, arriving afterwards in order, is refused (%r)" % (j, x.height, e),
                         {"recorded": names[x.height - 1] if x.height - 1 < len(names) else "?", "rival_first": j})
                ok = False
                break
        if ok and j < len(real) and cs3.current_chain_hash != real[-1].hash():      # (a rival at the LAST height ties and, seen first, stays head)
            res.fail("recorded", "real-chain-not-head-after-first-seen-rival", "a rival block was seen first at height %d; after all recorded real blocks arrived the head is not the last real block" % j,
                     {"recorded": "head", "rival_first": j})
    res.exhaustive = True
    res.sample({"recorded_blocks": sorted(rb["blocks"]), "scrypt": "real (N=2^15, r=8, p=1)", "horizon": "lowered to -1 so that full validation runs",
                "rival_heads": "every real block k validated with a fabricated longer branch forking at every j <= k as the current head"})


def run(shard, tier, seed):
    res = Result()
    try:
        if shard["kind"] == "table":
            run_table(res, tier, seed, shard)
        elif shard["kind"] == "deep":
            run_deep(res, tier, seed)
        elif shard["kind"] == "above_horizon":
            run_above_horizon(res, tier, seed)
        elif shard["kind"] == "format":
            run_format(res, tier, seed)
        elif shard["kind"] == "ibd":
            run_ibd(res, tier, seed)
        elif shard["kind"] == "deep_ibd":
            env.import_networking()
            run_deep_ibd(res, tier, seed)
        elif shard["kind"] == "ibd_store":
            env.import_networking()
            run_ibd_store(res, tier, seed)
        else:
            run_recorded(res, tier, seed)
    except env.HarnessError as e:
        res.error("HarnessError: %s" % e)                  # failures found before this point are kept
    except Exception:
        import traceback
        res.error("sub-check crashed:\n" + traceback.format_exc()[-1500:])
    return res


def replay(case):
    res = Result()
    if "above_horizon" in case:
        run_above_horizon(res, "quick", 1)
    elif "format" in case:
        run_format(res, "quick", 1)
    elif "deep_ibd" in case:
        env.import_networking()
        run_deep_ibd(res, "quick", 1)
    elif "ibd_store" in case:
        env.import_networking()
        run_ibd_store(res, "quick", 1)
    elif "ibd" in case:
        run_ibd(res, "quick", 1)
    elif "recorded" in case:
        run_recorded(res, "quick", 1)
    elif "deep" in case:
        run_deep(res, "quick", 1)
    elif "height" in case and "parent" in case:
        run_table(res, "quick", 1, {"i": 0, "n": 1})
    elif "height" in case:
        env.import_repo()
        from skepticoin import datatypes as D, signing as S, consensus as C
        from skepticoin.coinstate import CoinState
        cp, _ = pinned()
        table = {int(k): bytes.fromhex(v) for k, v in cp["known_hashes"].items()}
        h, cid = case["height"], bytes.fromhex(case["id"])
        try:
            C.validate_block_in_coinstate(candidate(D, S, h, cid), CoinState.zero())
            ok = True
        except Exception:
            ok = False
        want = (cid == table[h]) if h in table else True
        if ok != want:
            res.fail("checkpoint", "wrong-id-accepted" if ok else "right-id-refused", "verdict %s at height %d" % (ok, h), case)
    else:
        run_table(res, "quick", 1, {"i": 0, "n": 1})
    return res.failures
