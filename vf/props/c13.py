"""C13 -- the pending pool holds only valid, mutually compatible transactions (stateful: submissions x head changes)."""
import os
import hypothesis
from hypothesis import settings, strategies as st
from hypothesis.stateful import RuleBasedStateMachine, initialize, rule, run_state_machine_as_test

from vf import chainexec, env, refmodel as R
from vf import keys as K
from vf.keys import KEYS
from vf.result import Result, exc_sig
from vf.shrink import shrink_list

ID = "C13"
LEVEL = "exploration"
RULE = ("Hypothesis rule-based state machine over a simulated node on a generated forked chain: submit(kind) with kinds valid / "
        "conflicting with a pooled transaction / repeated / missing output / output that exists only on another fork / already "
        "spent output / wrong key / placeholder signature / output changed after signing / zero output / overspend / no inputs / "
        "no outputs / null reference / reference twice, through add_transaction_to_pool and through a peer's data message; "
        "extend(head, subset of the pool mined, optional conflicting spend) and fork(depth, length) building a longer side branch "
        "that un-spends and re-spends outputs, delivered through the relay path or set_coinstate; race_submit: while a valid "
        "transaction is being admitted another thread publishes a head that spends its input (schedule injection inside the "
        "admission's validation); ibd_rollback: bulk-download blocks are adopted unvalidated, a transaction spending their output "
        "is admitted, then an invalid block makes the node fall back to its last validated state; ibd_partial: announced blocks "
        "(the first spending a pooled transaction's input) are only partly served before the connection is lost. Oracle after EVERY step against "
        "the reference ledger at the reference head: each pooled transaction is reference-valid there, no two share a reference; "
        "a transaction failing validity or conflicting is not admitted; after a head change the pool == previous pool filtered by "
        "reference validity, order preserved. non-trivial = machine with >= 1 head change that evicted or could evict (fork switch, extension, own find, rollback, partial download) and >= 1 refused "
        "conflicting submission; distinct = digest of the op list.")
ASSUMPTIONS = ["simnet transport model; test configuration", "all delivered blocks are honest (block validity is C01/C09's subject)"]
MIN_NONTRIVIAL = {"quick": 20, "thorough": 400}

KINDS = ["valid", "valid", "valid", "valid2", "conflict", "repeat", "missing", "other_fork", "spent", "wrong_key", "placeholder",
         "out_changed", "sig_transplant", "sig_transplant", "zero_out", "overspend", "no_inputs", "no_outputs", "null_ref", "ref_twice", "over_max"]


def tx_valid(tx, utxo):
    """reference transaction validity at a ledger state -> None or reason"""
    if not tx.ins:
        return "no-inputs"
    if not tx.outs:
        return "no-outputs"
    try:
        if len(tx.raw()) > R.MAX_BLOCK_SIZE:
            return "size"
    except Exception:
        return "unencodable"
    tot = 0
    for v, _ in tx.outs:
        if not (0 < v <= R.MAX_SASHIMI):
            return "output-range"
        tot += v
    if not (0 < tot <= R.MAX_SASHIMI):
        return "total-range"
    refs = [(h, i) for h, i, _ in tx.ins]
    if len(set(refs)) != len(refs):
        return "reference-twice"
    tin = 0
    msg = R.signing_message(tx)
    for h, i, s in tx.ins:
        if h == R.NULL32 and i == 0:
            return "null-reference"
        if s[0] != "sig":
            return "placeholder"
        o = utxo.get((h, i))
        if o is None:
            return "missing-output"
        if not K.verify(o[1], s[1], msg):
            return "bad-signature"
        tin += o[0]
    if tot > tin:
        return "overspend"
    return None


class Exec:
    def __init__(self, init):
        import random
        from vf import simnet, build as b
        env.import_networking()
        from skepticoin.networking import messages as M
        self.M, self.b, self.simnet = M, b, simnet
        case = chainexec.gen_case(random.Random(init["hist_seed"]), tuple(init["cfg"]), init["n_blocks"], 0.0, ["C01"], p_tx=0.6, p_fork=0.35)
        self.run = chainexec.Run(case, ("C13",))
        self.run.execute()
        if self.run.degenerate():
            raise env.HarnessError(self.run.harness[0])
        self.world = self.run.world
        self.led = self.world.uni
        simnet.install()
        self.net = simnet.Net()
        head_ts = self.run.cs.head().timestamp
        simnet.CLOCK.now = head_ts + 50
        self.node = self.net.add("n", "10.0.0.1", self.run.cs, 3, disk=simnet.RecDisk())
        self.node.cm.started_at = -10 ** 9
        self.wire = simnet.Wire(self.net, self.node)
        self.wire.greet()
        self.acc = R.RefLedger(b.GENESIS, self.led.cfg)          # the blocks the NODE currently holds (reference view)
        for i in self.led.order[1:]:
            self.acc.add(self.led.nodes[i].blk)
        self.valid_snapshot = list(self.acc.order)             # node state at the last VALIDATED state change
        self.pool = []                 # model: list of RTx in admission order
        self.n = 0
        self.fails = []
        self.flags = {"evicted_by_fork": 0, "evicted_by_extension": 0, "conflict_refused": 0, "admitted": 0, "refused": 0, "valid_refused": 0, "head_changes": 0, "fork_switches": 0}

    def fail(self, kind, sig, msg):
        if not any(f["sig"] == sig for f in self.fails):
            self.fails.append({"kind": kind, "sig": sig, "msg": msg})

    def head(self):
        return self.acc.head()

    def node_pool(self):
        return [self.b.from_sk_tx(t) for t in self.node.cm.transaction_pool]

    # ------------------------------------------------------------ building transactions
    def make_tx(self, kind, a, b_, c):
        head = self.head()
        utxo = head.utxo
        mine = sorted((r, o) for r, o in utxo.items() if any(k.pub == o[1] for k in KEYS))
        used = {(h, i) for t in self.pool for (h, i, _s) in t.ins}
        free = [x for x in mine if x[0] not in used]

        def owner(o):
            return next(k for k in KEYS if k.pub == o[1])

        def signed(ins, outs, keys=None):
            tx = R.RTx([(r[0], r[1], ("se",)) for r in ins], outs)
            msg = R.signing_message(tx)
            ks = keys or [owner(utxo[r]) if r in utxo and any(k.pub == utxo[r][1] for k in KEYS) else KEYS[0] for r in ins]
            tx.ins = [(r[0], r[1], ("sig", k.sign(msg))) for r, k in zip(ins, ks)]
            return tx.touch()

        def pick(lst, n):
            return lst[n % len(lst)] if lst else None

        if kind in ("valid", "valid2"):
            if not free:
                return None
            n_in = 1 if kind == "valid" else min(2, len(free))
            ins = [free[(a + j) % len(free)] for j in range(n_in)]
            ins = list({i[0]: i for i in ins}.values())
            tot = sum(o[0] for _r, o in ins)
            fee = min(tot - 1, [0, 1, 100, tot - 1][b_ % 4])
            outs = [(tot - fee, KEYS[c % len(KEYS)].pub)]
            return signed([r for r, _ in ins], outs)
        if kind == "conflict":
            if not self.pool:
                return None
            t = pick(self.pool, a)
            h, i, _ = t.ins[b_ % len(t.ins)]
            o = utxo.get((h, i))
            if o is None:
                return None
            return signed([(h, i)], [(max(1, o[0] - 1 - c % 5), KEYS[c % len(KEYS)].pub)])
        if kind == "repeat":
            return pick(self.pool, a)
        if kind == "missing":
            return signed([(R.sha256d(b"nope%d" % a), b_ % 3)], [(1 + c % 100, KEYS[0].pub)], [KEYS[a % len(KEYS)]])
        if kind == "other_fork":
            anc = set()
            for bid in head.chain:
                anc.update(self.acc.nodes[bid].utxo.keys())
            other = sorted((r, o) for nid in self.acc.order if nid not in head.chain for r, o in self.acc.nodes[nid].utxo.items()
                           if r not in anc and any(k.pub == o[1] for k in KEYS))
            x = pick(other, a)
            if x is None:
                return None
            return signed([x[0]], [(x[1][0], KEYS[c % len(KEYS)].pub)], [owner(x[1])])
        if kind == "spent":
            gone = sorted((r, o) for bid in head.chain[:-1] for r, o in self.acc.nodes[bid].utxo.items() if r not in utxo and any(k.pub == o[1] for k in KEYS))
            x = pick(gone, a)
            if x is None:
                return None
            return signed([x[0]], [(x[1][0], KEYS[c % len(KEYS)].pub)], [owner(x[1])])
        x = pick(free, a)
        if x is None:
            return None
        r, o = x
        if kind == "wrong_key":
            k = KEYS[(owner(o).i + 1 + b_ % (len(KEYS) - 1)) % len(KEYS)]
            return signed([r], [(o[0], KEYS[c % len(KEYS)].pub)], [k])
        if kind == "placeholder":
            tx = signed([r], [(o[0], KEYS[c % len(KEYS)].pub)])
            tx.ins = [(r[0], r[1], ("se",) if b_ % 2 else ("cb", 0, b"x"))]
            return tx.touch()
        if kind == "sig_transplant":
            # a signature this node HAS ALREADY VERIFIED (it sits in a pooled transaction of the same key) is re-presented on
            # a spend of ANOTHER output of that key: same key, genuine signature bytes, different message
            cands = []
            for t in self.pool:
                for (h0, i0, s0) in t.ins:
                    o0 = utxo.get((h0, i0))
                    if o0 is not None and s0[0] == "sig":
                        for r2, o2 in free:
                            if o2[1] == o0[1] and r2 != (h0, i0):
                                cands.append((s0, r2, o2))
            x2 = pick(cands, a)
            if x2 is None:
                return None
            s0, r2, o2 = x2
            tx = R.RTx([(r2[0], r2[1], s0)], [(o2[0], KEYS[c % len(KEYS)].pub)])
            return tx.touch()
        if kind == "out_changed":
            tx = signed([r], [(o[0], KEYS[c % len(KEYS)].pub)])
            tx.outs = [(o[0], KEYS[(c + 1) % len(KEYS)].pub)]
            return tx.touch()
        if kind == "zero_out":
            return signed([r], [(0, KEYS[0].pub), (o[0], KEYS[1].pub)] if b_ % 2 else [(0, KEYS[0].pub)])
        if kind == "overspend":
            return signed([r], [(o[0] + 1 + b_ % 3, KEYS[c % len(KEYS)].pub)])
        if kind == "over_max":
            return signed([r], [(R.MAX_SASHIMI + 1, KEYS[0].pub)] if b_ % 2 else [(R.MAX_SASHIMI, KEYS[0].pub), (1, KEYS[1].pub)])
        if kind == "no_inputs":
            return R.RTx([], [(1, KEYS[0].pub)])
        if kind == "no_outputs":
            return signed([r], [])
        if kind == "null_ref":
            return signed([r, (R.NULL32, 0)], [(o[0], KEYS[0].pub)], [owner(o), owner(o)])
        if kind == "ref_twice":
            return signed([r, r], [(o[0], KEYS[0].pub)])
        return None

    # ------------------------------------------------------------ ops
    def invariant(self, where):
        utxo = self.head().utxo
        got = self.node_pool()
        seen = set()
        for t in got:
            why = tx_valid(t, utxo)
            if why:
                self.fail("pool", "invalid-transaction-in-pool:" + why, "%s: a pooled transaction is not valid at the head (%s)" % (where, why))
            for (h, i, _s) in t.ins:
                if (h, i) in seen:
                    self.fail("pool", "pooled-transactions-share-an-output", "%s: two pooled transactions spend the same output" % where)
                seen.add((h, i))
        if self.node.cm.coinstate.current_chain_hash != self.head().id:
            self.fail("harness", "harness:head-mismatch", "%s: node head differs from the reference head" % where)

    def step(self, op):
        M = self.M
        k = op[0]
        if k == "tx":
            _, kind, a, b_, c, via = op
            tx = self.make_tx(kind, a, b_, c)
            if tx is None:
                return
            utxo = self.head().utxo
            why = tx_valid(tx, utxo)
            used = {(h, i) for t in self.pool for (h, i, _s) in t.ins}
            conflict = any((h, i) in used for (h, i, _s) in tx.ins)
            already = any(t.id() == tx.id() for t in self.pool)
            should = why is None and not conflict and not already
            try:
                sk = self.b.to_sk_tx(tx)
                sk.serialize()
            except Exception:
                return
            before = [t.id() for t in self.node_pool()]
            if via == "api":
                try:
                    ok = self.net.call(self.node, self.node.cm.add_transaction_to_pool, sk)
                except Exception:
                    ok = False
            else:
                self.wire.send(M.DataMessage(M.DATA_TRANSACTION, sk))
                self.wire.deliver()
                if not self.wire.connected:
                    self.wire = self.simnet.Wire(self.net, self.node, host="10.0.2.%d" % (self.n % 200 + 2))
                    self.wire.greet()
                ok = None
            self.n += 1
            after = [t.id() for t in self.node_pool()]
            admitted = after != before
            if self.net.escaped:
                self.fail("escape", "exception-escaped-handler", "submission of a %s transaction: %s" % (kind, self.net.escaped[0][1]))
            if admitted and after != before + [tx.id()]:
                self.fail("pool", "pool-changed-unexpectedly-on-submission", "submission of a %s transaction changed the pool other than by appending it" % kind)
            if admitted and not should:
                reason = why or ("conflict" if conflict else "already-pooled")
                self.fail("admission", "admitted:" + reason, "a %s transaction was admitted although it is %s" % (kind, reason))
            if admitted:
                self.pool.append(tx)
                self.flags["admitted"] += 1
            else:
                self.flags["refused"] += 1
                if conflict and why is None:
                    self.flags["conflict_refused"] += 1
                if should:
                    self.flags["valid_refused"] += 1
            if ok is True and not admitted:
                self.fail("admission", "reported-admitted-but-not-pooled", "add_transaction_to_pool returned True but the pool is unchanged")
            self.invariant("after submitting a %s transaction" % kind)
        elif k == "race_submit":
            # schedule injection: while add_transaction_to_pool is validating a (valid) transaction, the miner/network thread
            # publishes a new head whose block spends the same output.  Whatever the interleaving, the pool must end up
            # without that (now invalid) transaction.
            import threading
            import skepticoin.networking.manager as MG
            _, a, b_, c, miner = op
            tx = self.make_tx("valid", a, b_, c)
            if tx is None or tx_valid(tx, self.head().utxo) is not None:
                return
            h, i, _s = tx.ins[0]
            o = self.head().utxo[(h, i)]
            kk = next(kk for kk in KEYS if kk.pub == o[1])
            rival = R.RTx([(h, i, ("se",))], [(o[0], KEYS[(miner + 5) % len(KEYS)].pub)])
            rival.ins = [(h, i, ("sig", kk.sign(R.signing_message(rival))))]
            if rival.touch().id() == tx.id():
                return
            self.n += 1
            label = "q%d" % self.n
            parent = self.head()
            plabel = next(l for l, blk in self.world.blocks.items() if blk.id() == parent.id)
            self.world.txs[label + ".t0"] = rival
            blk = self.world.build_block({"label": label, "parent": plabel, "miner": miner % len(KEYS), "dt": self.world.safe_dt(parent, 60), "txs": [{"copy": label + ".t0"}]})
            if blk is None or self.led.validate(blk, blk.ts):
                return
            self.simnet.CLOCK.now = max(self.simnet.CLOCK.now, blk.ts)
            cs2 = self.node.cm.coinstate.add_block(self.b.to_sk_block(blk), self.simnet.CLOCK.now)
            self.world.accept(label, blk)
            self.acc.add(blk)
            self.valid_snapshot = list(self.acc.order)
            prev_pool = list(self.pool)
            orig = MG.validate_non_coinbase_transaction_in_coinstate
            state = {}

            def validate_then_interleave(*args, **kw):
                r = orig(*args, **kw)
                if "t" not in state:
                    t = threading.Thread(target=lambda: self.node.cm.set_coinstate(cs2))
                    t.daemon = True
                    state["t"] = t
                    t.start()
                    t.join(0.1)                          # bounded wait only; both orders are legal
                return r

            MG.validate_non_coinbase_transaction_in_coinstate = validate_then_interleave
            try:
                try:
                    self.net.call(self.node, self.node.cm.add_transaction_to_pool, self.b.to_sk_tx(tx))
                except Exception:
                    pass
            finally:
                MG.validate_non_coinbase_transaction_in_coinstate = orig
            if "t" in state:
                state["t"].join(5)
            else:
                self.node.cm.set_coinstate(cs2)
            self.flags["race_submissions"] = self.flags.get("race_submissions", 0) + 1
            utxo = self.head().utxo
            want = [t for t in prev_pool if tx_valid(t, utxo) is None]
            got = self.node_pool()
            if any(t.id() == tx.id() for t in got):
                self.fail("race", "transaction-spent-by-new-head-admitted", "a transaction whose input is spent by a head published while it was being admitted ended up in the pool")
            elif [t.id() for t in got] != [t.id() for t in want]:
                self.fail("race", "pool-wrong-after-concurrent-head-change", "pool differs from the previous pool filtered by validity after a head change concurrent with a submission")
            self.pool = want
            self.invariant("after a submission concurrent with a head change")
        elif k == "ibd_rollback":
            # blocks fetched in bulk download are adopted WITHOUT in-state validation; a transaction spending one of their
            # outputs is admitted; then a delivered block fails in-state validation and the node falls back to its last
            # validated state -- the pool must be cleaned against THAT state
            _, n_ibd, a, miner = op
            head0 = self.head()
            tip = head0
            new_ids = []
            for j in range(1 + n_ibd % 2):
                self.n += 1
                label = "i%d" % self.n
                plabel = next(l for l, blk in self.world.blocks.items() if blk.id() == tip.id)
                blk = self.world.build_block({"label": label, "parent": plabel, "miner": (miner + j) % len(KEYS), "dt": self.world.safe_dt(tip, 40), "txs": []})
                if blk is None or self.led.validate(blk, blk.ts):
                    return
                self.world.accept(label, blk)
                self.simnet.CLOCK.now = max(self.simnet.CLOCK.now, blk.ts)
                self.wire.send(M.DataMessage(M.DATA_BLOCK, self.b.to_sk_block(blk)), in_response_to=7)      # as an answer to a request
                self.wire.deliver()
                if blk.id() not in self.node.cm.coinstate.block_by_hash:
                    self.fail("harness", "harness:block-not-accepted", "a bulk-download block was not adopted")
                    return
                self.acc.add(blk)
                new_ids.append(blk.id())
                tip = self.acc.nodes[blk.id()]
            # pool follows the new head (exact eviction is checked by the other ops; here only re-sync the model)
            utxo = self.head().utxo
            self.pool = [t for t in self.pool if tx_valid(t, utxo) is None]
            if [t.id() for t in self.node_pool()] != [t.id() for t in self.pool]:
                self.fail("eviction", "pool-wrong-after-bulk-download-blocks", "pool differs from the previous pool filtered by validity after bulk-download blocks")
                return
            # a transaction that spends an output created by a bulk-download block
            cbref = (tip.blk.txs[0].id(), 0)
            o = utxo.get(cbref)
            kk = next((kk for kk in KEYS if o and kk.pub == o[1]), None)
            if kk is None:
                return
            tx = R.RTx([(cbref[0], 0, ("se",))], [(o[0] - a % 7, KEYS[a % len(KEYS)].pub)])
            tx.ins = [(cbref[0], 0, ("sig", kk.sign(R.signing_message(tx))))]
            tx.touch()
            if self.net.call(self.node, self.node.cm.add_transaction_to_pool, self.b.to_sk_tx(tx)):
                self.pool.append(tx)
            # an invalid block (passes the stand-alone checks, fails in-state validation: timestamp equal to its parent's)
            self.n += 1
            plabel = next(l for l, blk in self.world.blocks.items() if blk.id() == tip.id)
            bad = self.world.build_block({"label": "x%d" % self.n, "parent": plabel, "miner": miner % len(KEYS), "dt": 40, "txs": [], "hdr": {"ts": "parent"}})
            if bad is None:
                return
            self.wire.send(M.DataMessage(M.DATA_BLOCK, self.b.to_sk_block(bad)))
            self.wire.deliver()
            if not self.wire.connected:
                self.wire = self.simnet.Wire(self.net, self.node, host="10.0.2.%d" % (self.n % 200 + 2))
                self.wire.greet()
            self.flags["rollbacks"] = self.flags.get("rollbacks", 0) + 1
            # the node is back at its last validated state
            have = set(self.node.cm.coinstate.block_by_hash.keys())
            if have != set(self.valid_snapshot):
                if bad.id() in have:
                    self.fail("harness", "harness:invalid-block-accepted", "block with timestamp equal to its parent's was accepted")
                    return
                # (whether the node keeps or drops the unvalidated blocks is not this property's business; follow it)
                keep = [i for i in self.acc.order if i in have]
            else:
                keep = list(self.valid_snapshot)
            acc2 = R.RefLedger(self.b.GENESIS, self.led.cfg)
            for i in keep[1:]:
                acc2.add(self.acc.nodes[i].blk)
            self.acc = acc2
            utxo = self.head().utxo
            want = [t for t in self.pool if tx_valid(t, utxo) is None]
            got = [t.id() for t in self.node_pool()]
            if got != [t.id() for t in want]:
                gs, ws = set(got), {t.id() for t in want}
                if gs - ws:
                    self.fail("eviction", "invalid-transaction-kept-after-rollback", "after falling back to the last validated state %d transaction(s) that are not valid there stayed in the pool" % len(gs - ws))
                else:
                    self.fail("eviction", "valid-transaction-evicted-on-rollback", "after falling back to the last validated state the pool lost still-valid transactions or changed order")
            self.pool = want
            self.invariant("after a rollback to the last validated state")
        elif k == "ibd_partial":
            # a peer ANNOUNCES several new blocks (the first one spends an output a pooled transaction uses), the node asks
            # for them, but only some are served before the connection is lost: the head moved, so the pool must be clean
            _, n_blocks, n_served, a, miner = op
            if not self.wire.connected:
                return
            tip = self.head()
            built = []
            for j in range(2 + n_blocks % 2):
                txs = []
                if j == 0 and self.pool:
                    t = self.pool[a % len(self.pool)]
                    h, i, _s = t.ins[0]
                    o = tip.utxo.get((h, i))
                    kk = next((kk for kk in KEYS if o and kk.pub == o[1]), None)
                    if kk is not None:
                        c = R.RTx([(h, i, ("se",))], [(o[0], KEYS[(miner + 2) % len(KEYS)].pub)])
                        c.ins = [(h, i, ("sig", kk.sign(R.signing_message(c))))]
                        if c.touch().id() != t.id():
                            txs.append(c)
                self.n += 1
                label = "j%d" % self.n
                plabel = next(l for l, blk in self.world.blocks.items() if blk.id() == tip.id)
                names = []
                for q, t in enumerate(txs):
                    self.world.txs["%s.t%d" % (label, q)] = t
                    names.append("%s.t%d" % (label, q))
                blk = self.world.build_block({"label": label, "parent": plabel, "miner": (miner + j) % len(KEYS), "dt": self.world.safe_dt(tip, 35), "txs": [{"copy": n} for n in names]})
                if blk is None or self.led.validate(blk, blk.ts):
                    return
                self.world.accept(label, blk)
                built.append(blk)
                tip = self.led.nodes[blk.id()]
            self.simnet.CLOCK.now = max(self.simnet.CLOCK.now, built[-1].ts)
            n0 = len(self.wire.received)
            self.wire.send(M.InventoryMessage([M.InventoryItem(M.DATA_BLOCK, x.id()) for x in built]))
            self.wire.deliver()
            asks = {m.hash: h for (h, m) in self.wire.received[n0:] if isinstance(m, M.GetDataMessage)}
            served = 0
            for x in built[:1 + n_served % len(built)]:
                if x.id() not in asks or served >= len(built) - 1:
                    break
                self.wire.send(M.DataMessage(M.DATA_BLOCK, self.b.to_sk_block(x)), in_response_to=asks[x.id()].id)
                self.wire.deliver()
                if x.id() in self.node.cm.coinstate.block_by_hash:
                    self.acc.add(x)
                    served += 1
            if a % 2:
                self.wire.sock.close()                   # the connection is lost in the middle of the batch
                self.net.drain(None, only=[self.node])
                self.wire = self.simnet.Wire(self.net, self.node, host="10.0.2.%d" % (self.n % 200 + 2))
                self.wire.greet()
            self.flags["partial_downloads"] = self.flags.get("partial_downloads", 0) + 1
            if self.node.cm.coinstate.current_chain_hash != self.head().id:
                self.fail("harness", "harness:head-mismatch", "after a partial bulk download the node head differs from the reference head")
                return
            utxo = self.head().utxo
            want = [t for t in self.pool if tx_valid(t, utxo) is None]
            got = [t.id() for t in self.node_pool()]
            if got != [t.id() for t in want]:
                gs, ws = set(got), {t.id() for t in want}
                if gs - ws:
                    self.fail("eviction", "invalid-transaction-kept-after-partial-download", "after %d of %d announced blocks were downloaded (head moved) %d transaction(s) that are no longer valid stayed in the pool" % (
                        served, len(built), len(gs - ws)))
                else:
                    self.fail("eviction", "valid-transaction-evicted-on-head-change", "after a partial bulk download still-valid transactions were evicted or reordered")
            self.pool = want
            self.invariant("after a partial bulk download")
        elif k == "miner_find":
            # the node's OWN miner finds a block on the head (the real MinerWatcher handlers; the harness plays the mining
            # process): the head moves, so the transactions it just mined must leave the pool
            from datetime import datetime
            from skepticoin import mining as MI, consensus as C
            from skepticoin.wallet import Wallet
            from vf.props.c12 import Q, NT, margs
            if self.led.prescribed_target(self.head(), self.head().blk.ts + 60) < bytes([0, 64]) + bytes(30) or self.flags.get("miner_finds", 0) >= 2:
                return                                          # too hard to find within the budget
            mw = MI.MinerWatcher.__new__(MI.MinerWatcher)
            nt = NT()
            nt.local_peer = self.node.lp
            mw.network_thread, mw.send_queues, mw.mining_args, mw.hash_stats = nt, [Q()], {}, {}
            mw.coinstate = self.node.cm.coinstate

            class A:
                quiet = True
            mw.args, mw.log_silencer, mw.start_time = A(), [], datetime.fromtimestamp(1)
            wk = KEYS[(op[1] % 4) + 4]
            mw.wallet = Wallet({wk.pub: wk.priv, KEYS[3].pub: KEYS[3].priv}, [wk.pub, KEYS[3].pub], {})
            mw.public_key = mw.wallet.get_annotated_public_key("reserved for potentially mined block")
            mw.balance = mw.start_balance = 0
            real_time = MI.time
            MI.time = lambda: self.simnet.CLOCK.now
            self.simnet.CLOCK.now = max(self.simnet.CLOCK.now, self.head().blk.ts + 40)
            old_head = self.head()
            prev_pool = list(self.pool)
            cwd = os.getcwd()
            os.chdir(env.fresh_subdir("c13miner"))
            try:
                for nonce in range(op[2], op[2] + 8_000):
                    with env.quiet():
                        mw.handle_request_scrypt_input_message(0, nonce & 0xFFFFFFFF)
                        summary, height = mw.send_queues[0].items[-1][1]
                        del mw.send_queues[0].items[:]
                        before = mw.coinstate
                        mw.handle_scrypt_output_message(0, C.construct_summary_hash(summary, height))
                    if mw.coinstate is not before:
                        break
                else:
                    return
            except Exception as e:
                self.fail("miner", "miner-find-raised:" + exc_sig(e), "the node's own miner raised %r with %d pooled transaction(s)" % (e, len(prev_pool)))
                return
            finally:
                MI.time = real_time
                os.chdir(cwd)
            cs = self.node.cm.coinstate
            if cs.current_chain_hash == old_head.id:
                return
            plain = self.b.from_sk_block(cs.block_by_hash[cs.current_chain_hash])
            if plain.prev != old_head.id or self.led.validate(plain, plain.ts + 30):
                self.fail("harness", "harness:unexpected-miner-block", "the miner's block is not a valid successor of the head")
                return
            self.n += 1
            label = "mf%d" % self.n
            for j, t in enumerate(plain.txs):
                self.world.txs["%s.%d" % (label, j)] = t
            self.world.accept(label, plain)
            self.acc.add(plain)
            self.valid_snapshot = list(self.acc.order)
            self.flags["miner_finds"] = self.flags.get("miner_finds", 0) + 1
            self.flags["head_changes"] += 1
            utxo = self.head().utxo
            want = [t for t in prev_pool if tx_valid(t, utxo) is None]
            got = [t.id() for t in self.node_pool()]
            if got != [t.id() for t in want]:
                gs, ws = set(got), {t.id() for t in want}
                if gs - ws:
                    self.fail("eviction", "invalid-transaction-kept-after-own-find", "after the node's own miner found a block (%d transaction(s) mined) %d no-longer-valid transaction(s) stayed in the pool" % (
                        len(plain.txs) - 1, len(gs - ws)))
                else:
                    self.fail("eviction", "valid-transaction-evicted-on-head-change", "after the node's own find still-valid transactions were evicted or reordered")
            self.pool = want
            self.invariant("after the node's own find")
        elif k == "extend":
            _, mask, conflict, via, miner = op
            take = [t for j, t in enumerate(self.pool) if (mask >> j) & 1]
            extra = []
            if conflict and self.pool:
                cands = [t for t in self.pool if t not in take]
                if cands:
                    t = cands[conflict % len(cands)]
                    h, i, _ = t.ins[0]
                    o = self.head().utxo.get((h, i))
                    if o is not None and any(kk.pub == o[1] for kk in KEYS):
                        kk = next(kk for kk in KEYS if kk.pub == o[1])
                        c = R.RTx([(h, i, ("se",))], [(o[0], KEYS[(miner + 3) % len(KEYS)].pub)])
                        c.ins = [(h, i, ("sig", kk.sign(R.signing_message(c))))]
                        if c.touch().id() != t.id():
                            extra.append(c)
            self.add_block(self.head(), take + extra, via, miner, 60)
        elif k == "fork":
            _, depth, extra_len, via, spend_mask = op
            head = self.head()
            depth = 1 + depth % max(1, min(3, head.height))
            base = self.acc.nodes[head.chain[head.height - depth]]
            tip = base
            for j in range(depth + 1 + extra_len % 2):
                txs = []
                if (spend_mask >> j) & 1:
                    mine = sorted((r, o) for r, o in tip.utxo.items() if any(kk.pub == o[1] for kk in KEYS))
                    pooled = {(h, i) for t in self.pool for (h, i, _s) in t.ins}
                    hot = [x for x in mine if x[0] in pooled]
                    if hot and (spend_mask >> 4) & 1:
                        mine = hot                      # re-spend, on the side branch, an output a pooled transaction uses
                    if mine:
                        r, o = mine[(spend_mask + j) % len(mine)]
                        kk = next(kk for kk in KEYS if kk.pub == o[1])
                        t = R.RTx([(r[0], r[1], ("se",))], [(o[0], KEYS[j % len(KEYS)].pub)])
                        t.ins = [(r[0], r[1], ("sig", kk.sign(R.signing_message(t))))]
                        txs.append(t.touch())
                tip = self.add_block(tip, txs, via, j, 30)
                if tip is None or self.fails:
                    break

    def add_block(self, parent, txs, via, miner, dt):
        M = self.M
        self.n += 1
        label = "p%d" % self.n
        plabel = next(l for l, blk in self.world.blocks.items() if blk.id() == parent.id)
        names = []
        for j, t in enumerate(txs):
            nm = "%s.t%d" % (label, j)
            self.world.txs[nm] = t
            names.append(nm)
        op = {"label": label, "parent": plabel, "miner": miner % len(KEYS), "dt": self.world.safe_dt(parent, dt), "txs": [{"copy": n} for n in names]}
        blk = self.world.build_block(op)
        if blk is None:
            return None
        old_head = self.head()
        v = self.led.validate(blk, blk.ts)
        if v:
            raise env.HarnessError("harness built an invalid block: %s" % v)
        node = self.world.accept(label, blk)
        self.simnet.CLOCK.now = max(self.simnet.CLOCK.now, blk.ts)
        prev_pool = list(self.pool)
        if via == "relay":
            self.wire.send(M.DataMessage(M.DATA_BLOCK, self.b.to_sk_block(blk)))
            self.wire.deliver()
        else:
            cs2 = self.node.cm.coinstate.add_block(self.b.to_sk_block(blk), self.simnet.CLOCK.now)
            self.node.cm.set_coinstate(cs2)
        if self.net.escaped:
            self.fail("escape", "exception-escaped-handler", "block delivery: %s" % self.net.escaped[0][1])
        if blk.id() not in self.node.cm.coinstate.block_by_hash:
            self.fail("harness", "harness:block-not-accepted", "an honest block was not accepted by the node")
            return node
        self.acc.add(blk)
        self.valid_snapshot = list(self.acc.order)
        new_head = self.head()
        if new_head.id != old_head.id:
            self.flags["head_changes"] += 1
            switched = old_head.id not in new_head.chain
            if switched:
                self.flags["fork_switches"] += 1
            utxo = new_head.utxo
            want = [t for t in prev_pool if tx_valid(t, utxo) is None]
            got = [t.id() for t in self.node_pool()]
            ev = len(prev_pool) - len(want)
            self.flags["evicted_by_fork" if switched else "evicted_by_extension"] += ev
            if got != [t.id() for t in want]:
                gs, ws = set(got), {t.id() for t in want}
                if gs - ws:
                    self.fail("eviction", "invalid-transaction-kept-after-head-change", "after a head change (%s) %d no-longer-valid transaction(s) stayed in the pool" % ("fork switch" if switched else "extension", len(gs - ws)))
                elif ws - gs:
                    self.fail("eviction", "valid-transaction-evicted-on-head-change", "after a head change (%s) %d still-valid transaction(s) were evicted" % ("fork switch" if switched else "extension", len(ws - gs)))
                else:
                    self.fail("eviction", "pool-order-changed", "after a head change the pool order changed")
            self.pool = want
        else:
            if [t.id() for t in self.node_pool()] != [t.id() for t in prev_pool]:
                self.fail("eviction", "pool-changed-without-head-change", "a block that did not change the head changed the pool")
        self.invariant("after a block")
        return node


class Machine(RuleBasedStateMachine):
    res = None
    found = None

    def __init__(self):
        super().__init__()
        self.ex = None
        self.ops = []
        self.dead = False

    @initialize(hist_seed=st.integers(0, 1 << 30), cfg=st.sampled_from(chainexec.CFGS[:3]), n_blocks=st.integers(4, 9))
    def setup(self, hist_seed, cfg, n_blocks):
        self.init = {"hist_seed": hist_seed, "cfg": list(cfg), "n_blocks": n_blocks}
        self.ex = Exec(self.init)

    def do(self, op):
        if self.dead or self.ex is None:
            return
        self.ops.append(op)
        Machine.res.evaluations += 1
        try:
            self.ex.step(op)
        except env.HarnessError:
            raise
        except Exception as e:
            if exc_sig(e).endswith("@None"):          # raised by the harness itself (no frame of the code under test)
                Machine.res.error("executor raised %r" % (e,))
                self.dead = True
            else:
                self.ex.fail("exception", "exc:" + exc_sig(e), "op %s raised %r" % (op[0], e))
        if self.ex.fails:
            self.dead = True

    @rule(kind=st.sampled_from(KINDS), a=st.integers(0, 1000), b=st.integers(0, 1000), c=st.integers(0, 1000), via=st.sampled_from(["api", "api", "peer"]))
    def submit(self, kind, a, b, c, via):
        self.do(["tx", kind, a, b, c, via])

    @rule(kind=st.sampled_from(["valid", "valid", "valid2", "conflict"]), a=st.integers(0, 1000), b=st.integers(0, 1000), c=st.integers(0, 1000), via=st.sampled_from(["api", "peer"]))
    def submit_plausible(self, kind, a, b, c, via):
        self.do(["tx", kind, a, b, c, via])

    @rule(a=st.integers(0, 1000), b=st.integers(0, 1000), c=st.integers(0, 1000), miner=st.integers(0, 7))
    def race_submit(self, a, b, c, miner):
        self.do(["race_submit", a, b, c, miner])

    @rule(n=st.integers(0, 1), served=st.integers(0, 2), a=st.integers(0, 1000), miner=st.integers(0, 7))
    def ibd_partial(self, n, served, a, miner):
        self.do(["ibd_partial", n, served, a, miner])

    @rule(n=st.integers(0, 1), a=st.integers(0, 1000), miner=st.integers(0, 7))
    def ibd_rollback(self, n, a, miner):
        self.do(["ibd_rollback", n, a, miner])

    @rule(key=st.integers(0, 3), nonce=st.integers(0, 1 << 30))
    def miner_find(self, key, nonce):
        self.do(["miner_find", key, nonce])

    @rule(mask=st.integers(0, 15), conflict=st.integers(0, 3), via=st.sampled_from(["relay", "set"]), miner=st.integers(0, 7))
    def extend(self, mask, conflict, via, miner):
        self.do(["extend", mask, conflict, via, miner])

    @rule(depth=st.integers(0, 5), extra=st.integers(0, 3), via=st.sampled_from(["relay", "set"]), spend=st.integers(0, 31))
    def fork(self, depth, extra, via, spend):
        self.do(["fork", depth, extra, via, spend])

    def teardown(self):
        if self.ex is None:
            return
        res = Machine.res
        case = {"init": self.init, "ops": self.ops}
        res.count("machines")
        for k, v in self.ex.flags.items():
            res.count(k, v)
        fl = self.ex.flags
        if (fl["evicted_by_fork"] or fl["evicted_by_extension"] or fl.get("miner_finds") or fl.get("partial_downloads") or fl.get("rollbacks")) and fl["conflict_refused"]:
            res.nontrivial(env.digest(case))
        if res.counters["machines"] in (2, 9):
            res.sample(case)
        for f in self.ex.fails:
            if f["sig"] not in Machine.found:
                Machine.found[f["sig"]] = (f, case)


def execute(case):
    ex = Exec(case["init"])
    for op in case["ops"]:
        ex.step(op)
        if ex.fails:
            break
    return ex.fails


def shards(tier):
    return [{"kind": "sm", "i": i} for i in range(16)]


def run(shard, tier, seed):
    res = Result()
    Machine.res = res
    Machine.found = {}
    n = 24 if tier == "quick" else 400
    steps = 30 if tier == "quick" else 50
    run_state_machine_as_test(
        hypothesis.seed(env.subseed(seed, ID, shard["i"]))(Machine),
        settings=settings(max_examples=n, stateful_step_count=steps, deadline=None, database=None,
                          suppress_health_check=list(hypothesis.HealthCheck), phases=[hypothesis.Phase.generate]))
    for sig, (f, case) in Machine.found.items():
        if sig.startswith("harness:"):
            res.error("%s: %s" % (sig, f["msg"]))
            continue

        def still(ops):
            try:
                return any(x["sig"] == sig for x in execute({"init": case["init"], "ops": ops}))
            except Exception:
                return False
        ops = shrink_list(case["ops"], still, 20)
        res.fail(f["kind"], sig, f["msg"], {"init": case["init"], "ops": ops})
    if res.counters.get("admitted", 0) == 0 and res.counters.get("machines", 0) > 5:
        res.error("no transaction was ever admitted: the admission oracle was not exercised (valid submissions refused: %d)" % res.counters.get("valid_refused", 0))
    return res


def replay(case):
    return [f for f in execute(case) if not f["sig"].startswith("harness:")]
