"""C05 -- header rules: proof of work, difficulty, height, time, evidence; the node's own assembly satisfies them."""
import hypothesis
from hypothesis import given, settings, strategies as st

from vf import chainexec, env, refmodel as R
from vf.result import Result

ID = "C05"
LEVEL = "exploration"
FOCUS = ("C05",)
RULE = ("four generated sub-checks. (1) retarget arithmetic: calculate_new_target(prev, elapsed) == min(prev*elapsed // "
        "1,209,600, 2^256-1) as 32 big-endian bytes, prev boundary-biased over [0,2^256), elapsed in [1,2^40]; "
        "validate_proof_of_work raises iff int(id) >= int(target) over random/equal/adjacent 32-byte pairs. "
        "(2) histories with exactly one header rule broken per mutated candidate (target +-1, un-retargeted at a boundary, the "
        "target the rule would give from ANOTHER branch's interval start, "
        "retargeted inside a period, height +-1, reward height +-1, timestamp = / < parent's, = now+31, id >= target, each "
        "evidence field flipped in one bit, evidence of a sibling, unknown parent, wrong merkle root, the height written without "
        "the deployed leading 0x80 octet on bases at heights 64..127 / 8192..16383 / 2^20..) under patched short "
        "periods AND on fabricated deep states with the real 10,080/1,209,600 and forks straddling a real boundary; the "
        "validator clock is generated; oracle: acceptance => every reference header clause. (3) construct_pow_evidence == "
        "independent reference evidence on every block of generated forked chains; select_block_height/slice == reference "
        "over random hashes, heights, block lengths 1..600 (wrap-around). (4) every block assembled by "
        "construct_block_for_mining on generated chains (both sides of boundaries, pool subsets) with a nonce found by "
        "search passes the reference clauses and add_block. non-trivial = history with a header-mutated candidate or a "
        "candidate at a retarget boundary; slice that wraps; assembly at a boundary or with pooled transactions; distinct = "
        "case digest.")
ASSUMPTIONS = ["test configuration: sha256 stand-in for scrypt through the same code path, checkpoints disabled",
               "deep states are fabricated (filler ancestors are not linked) -- only header rules are judged on them",
               "reference retarget/evidence implementations in vf/refmodel.py"]
MIN_NONTRIVIAL = {"quick": 100, "thorough": 1000}
CATS = ["C05"]


def shards(tier):
    return ([{"kind": "hist", "i": i} for i in range(10)] + [{"kind": "arith"}, {"kind": "pow_slices"}]
            + [{"kind": "assembly", "i": i} for i in range(4)] + [{"kind": "miner"}])


def _arith(res, tier, seed):
    env.import_repo()
    import skepticoin.consensus as C
    TS = R.REAL_TIMESPAN
    big = st.one_of(
        st.integers(0, R.TWO256 - 1),
        st.sampled_from([0, 1, 2, 1 << 248, (1 << 248) - 1, R.TWO256 - 1, R.TWO256 - 2, (1 << 255), (1 << 255) + 1]),
        st.integers(0, 256).flatmap(lambda b: st.integers(-2, 2).map(lambda d: min(R.TWO256 - 1, max(0, (1 << b) + d)))),
        st.integers(1, 1 << 41).map(lambda e: min(R.TWO256 - 1, (R.TWO256 * TS) // e)),          # results right at the cap
    )
    el = st.one_of(st.integers(1, 1 << 40), st.sampled_from([1, 2, TS // 2, TS - 1, TS, TS + 1, 2 * TS, 4 * TS, 1 << 40]))

    @hypothesis.seed(env.subseed(seed, ID, "arith"))
    @settings(max_examples=20_000 if tier == "quick" else 1_000_000, deadline=None, database=None,
              suppress_health_check=list(hypothesis.HealthCheck), phases=[hypothesis.Phase.generate])
    @given(big, el)
    def prop(prev, e):
        res.evaluations += 1
        pb = prev.to_bytes(32, "big")
        got = C.calculate_new_target(pb, e)
        want = R.retarget(pb, e)
        capped = prev * e // TS > R.TWO256 - 1
        if capped:
            res.count("retarget_capped")
        if prev * e % TS:
            res.count("retarget_inexact_division")
        res.nontrivial("a%x.%x" % (prev, e))
        if got != want or not isinstance(got, bytes) or len(got) != 32:
            res.fail("retarget", "retarget!=reference", "calculate_new_target(%x, %d) = %r, reference %s" % (prev, e, got, want.hex()),
                     {"prev": "%x" % prev, "elapsed": e})

    prop()
    h32 = st.one_of(st.binary(min_size=32, max_size=32), st.sampled_from([b"\x00" * 32, b"\xff" * 32, b"\x00" * 31 + b"\x01", b"\x01" + b"\x00" * 31]))

    @hypothesis.seed(env.subseed(seed, ID, "pow"))
    @settings(max_examples=10_000 if tier == "quick" else 300_000, deadline=None, database=None,
              suppress_health_check=list(hypothesis.HealthCheck), phases=[hypothesis.Phase.generate])
    @given(h32, h32, st.integers(-1, 1))
    def prop2(a, b, d):
        res.evaluations += 1
        if d != 0 or a == b:                      # equal and adjacent pairs
            b = min(R.TWO256 - 1, max(0, int.from_bytes(a, "big") + d)).to_bytes(32, "big")
            res.count("pow_adjacent_pairs")
        try:
            C.validate_proof_of_work(a, b)
            ok = True
        except C.ValidatePOWError:
            ok = False
        if ok != (int.from_bytes(a, "big") < int.from_bytes(b, "big")):
            res.fail("pow_compare", "pow-comparison", "validate_proof_of_work(%s,%s) accepted=%s" % (a.hex(), b.hex(), ok),
                     {"hash": a.hex(), "target": b.hex()})

    prop2()
    res.sample({"prev": "1<<248", "elapsed": TS * 2, "new": R.retarget((1 << 248).to_bytes(32, "big"), TS * 2).hex()})


def _pow_slices(res, tier, seed):
    env.import_repo()
    from skepticoin import pow as P

    @hypothesis.seed(env.subseed(seed, ID, "slices"))
    @settings(max_examples=20_000 if tier == "quick" else 400_000, deadline=None, database=None,
              suppress_health_check=list(hypothesis.HealthCheck), phases=[hypothesis.Phase.generate])
    @given(st.binary(min_size=32, max_size=32), st.integers(1, 1 << 40), st.integers(1, 600), st.integers(0, 5), st.integers(1, 8))
    def prop(h, height, blen, tail, k):
        res.evaluations += 1
        if tail:                                   # force a start close to the end of the block (wrap-around)
            start = max(0, blen - tail)
            base = (int.from_bytes(h[8:12], "big") // blen) * blen + start
            if base < (1 << 32):
                h = h[:8] + base.to_bytes(4, "big") + h[12:]
        blk = bytes((i * 7 + blen) & 0xFF for i in range(blen))
        want_h = int.from_bytes(h[:8], "big") % height
        if P.select_block_height(h, height) != want_h:
            res.fail("select_height", "select-height", "select_block_height(%s,%d)" % (h.hex(), height), {"hash": h.hex(), "height": height})
        start = int.from_bytes(h[8:12], "big") % blen
        want = b""
        s = start
        while len(want) < k:
            want += blk[s:s + k - len(want)]
            s = 0
        got = P.select_block_slice(h, blk, k)
        if start + k > blen:
            res.count("slices_wrapping")
            res.nontrivial("s%s.%d.%d" % (h.hex()[:24], blen, k))
        if got != want:
            res.fail("select_slice", "select-slice", "select_block_slice(start=%d, len=%d, k=%d) = %r want %r" % (start, blen, k, got, want),
                     {"hash": h.hex(), "blen": blen, "k": k})

    prop()
    res.sample({"hash": "00" * 8 + "0000000a" + "00" * 20, "block_len": 12, "k": 4, "note": "start 10 wraps to offset 0"})


class AssemblyRun(chainexec.Run):
    """extends the chain executor: after building an honest forked chain, let the CODE assemble candidates on every
    tip-or-interior state, search a nonce, and judge them with the reference."""

    def assemble(self, res, rnd, per_state=1):
        import skepticoin.consensus as C
        from skepticoin.coinstate import CoinState
        from skepticoin.signing import SECP256k1PublicKey
        from vf.keys import KEYS
        b = self.build
        led = self.world.uni
        sk_tx_pool = {}
        for nid in list(led.order):
            node = led.nodes[nid]
            if nid not in self.cs.block_by_hash:
                continue
            # the state "as if nid were the head": same maps, head forced (what the miner sees after a reorganisation)
            view = CoinState(self.cs.block_by_hash, self.cs.unspent_transaction_outs_by_hash,
                             self.cs.block_by_height_by_hash, self.cs.heads, nid)
            # pool: ordinary transactions that are valid at this state = spends of this state's outputs owned by our keys
            pool = []
            spendable = sorted((ref, o) for ref, o in node.utxo.items() if any(k.pub == o[1] for k in KEYS))
            rnd.shuffle(spendable)
            for (ref, o) in spendable[:rnd.randrange(0, 4)]:
                fee = min(rnd.choice([0, 1, 17, o[0] - 1]), o[0] - 1)
                tx = R.RTx([(ref[0], ref[1], ("se",))], [(o[0] - fee, KEYS[rnd.randrange(len(KEYS))].pub)])
                k = next(k for k in KEYS if k.pub == o[1])
                tx.ins = [(ref[0], ref[1], ("sig", k.sign(R.signing_message(tx))))]
                pool.append(tx.touch())
            dt = rnd.choice([1, 1, 2, 120, 10_000, 1_000_000])
            ts = node.blk.ts + dt
            if (node.height + 1) % self.case["cfg"][0] == 0:
                # keep the target minable
                start = led.nodes[node.chain[node.height + 1 - self.case["cfg"][0]]]
                need = -(-(1 << 245) * self.case["cfg"][1] // int.from_bytes(node.blk.target, "big"))
                if ts - start.blk.ts < need:
                    ts = start.blk.ts + need
            miner = KEYS[rnd.randrange(len(KEYS))]
            found = None
            tgt = None
            for nonce in range(200_000):
                try:
                    cand = C.construct_block_for_mining(view, [b.to_sk_tx(t) for t in pool], SECP256k1PublicKey(miner.pub), ts, b"asm", nonce)
                except Exception as e:
                    self.fail("assembly_raised", "assembly-raised", "construct_block_for_mining raised %r on state %s" % (e, nid.hex()[:12]))
                    break
                tgt = cand.target
                if cand.hash() < cand.target:
                    found = cand
                    break
            res.evaluations += 1
            if found is None:
                self.stat("assembly_unminable")
                continue
            self.stat("assembled")
            plain = b.from_sk_block(found)
            verdict = led.validate(plain, ts)
            boundary = (node.height + 1) % self.case["cfg"][0] == 0
            if boundary:
                self.stat("assembled_at_boundary")
            if pool:
                self.stat("assembled_with_pool")
            if boundary or pool or nid != led.head().id:
                res.nontrivial(env.digest([self.case, nid.hex(), ts, len(pool)]))
            if verdict:
                self.fail("assembly_invalid", "assembled:" + verdict[0], "block assembled on %s (h=%d) violates %s" % (nid.hex()[:12], node.height + 1, verdict))
                continue
            try:
                self.cs.add_block(found, ts)
            except Exception as e:
                self.fail("assembly_rejected", "assembled-block-rejected", "own assembly on h=%d rejected by add_block: %r" % (node.height + 1, e))
            # header facts stated by the property
            if not (plain.ts > node.blk.ts and plain.height == node.height + 1):
                self.fail("assembly_invalid", "assembled:header", "height/time wrong")


def _assembly(res, tier, seed, i):
    n = 12 if tier == "quick" else 250

    @hypothesis.seed(env.subseed(seed, ID, "asm", i))
    @settings(max_examples=n, deadline=None, database=None, suppress_health_check=list(hypothesis.HealthCheck),
              phases=[hypothesis.Phase.generate])
    @given(st.randoms(use_true_random=True), st.sampled_from(chainexec.CFGS[:3] + chainexec.CFGS[:3] + chainexec.CFGS[3:]),
           st.integers(4, 10), st.booleans())
    def prop(rnd, cfg, nb, deep):
        deepd = chainexec.gen_deep(rnd) if (deep and cfg[0] == R.REAL_PERIOD) else None
        case = chainexec.gen_case(rnd, cfg if deepd is None else chainexec.CFGS[3], nb, 0.0, CATS, deep=deepd)
        run = AssemblyRun(case, FOCUS)
        run.execute()
        run.assemble(res, rnd)
        for k, v in run.stats.items():
            if k.startswith("assembl"):
                res.count(k, v)
        res.count("assembly_histories")
        if run.degenerate() and len(res.errors) < 2:
            res.error(run.harness[0])
        for f in run.fails:
            res.fail(f["kind"], f["sig"], f["msg"], {"assembly_case": case, "seed": [seed, i]})
        if res.counters["assembly_histories"] == 1:
            res.sample({"assembly_on": case["cfg"], "n_ops": len(case["ops"]), "deep": bool(deepd)})

    prop()


def _evidence(res, run):
    """construct_pow_evidence (code) == reference evidence on every stored block of the executed history"""
    import skepticoin.consensus as C
    led = run.world.uni
    for nid in led.order[1:]:
        node = led.nodes[nid]
        if nid not in run.cs.block_by_hash or node.parent is None:
            continue
        skb = run.cs.block_by_hash[nid]
        try:
            ev = C.construct_pow_evidence(run.cs, skb.header.summary, skb.height, skb.transactions)
            got = (ev.summary_hash, ev.chain_sample, ev.block_hash)
        except Exception as e:
            got = repr(e)
        want = led.evidence(node.blk, node.parent)
        res.evaluations += 1
        res.count("evidence_compared")
        if got != tuple(want):
            res.fail("evidence", "evidence!=reference", "construct_pow_evidence for block h=%d differs from the reference" % node.height,
                     dict(run.case, evidence_of=nid.hex()))


def _miner(res, tier, seed):
    """the node's own block assembly AS THE MINER RUNS IT (MinerWatcher: one candidate request per nonce, the clock ticking
    between requests, found-block handler), on heads whose next height is a retarget boundary half of the time: the block it
    finds must satisfy every header rule of the reference and pass the node's own validation"""
    import random
    from vf.props import c12
    n = 60 if tier == "quick" else 600

    @hypothesis.seed(env.subseed(seed, ID, "miner"))
    @settings(max_examples=n, deadline=None, database=None, suppress_health_check=list(hypothesis.HealthCheck), phases=[hypothesis.Phase.generate])
    @given(st.randoms(use_true_random=True), st.sampled_from(chainexec.CFGS[:3]), st.integers(0, 6), st.sampled_from([1, 1, 2, 3, 40]),
           st.sampled_from([-30, -1, 0, 1, 1, 31, 120, 120]), st.sampled_from([0, 1, 2, 30]))
    def prop(rnd, cfg, extra, tick_every, asm_off, found_delay):
        want_boundary = rnd.random() < 0.7
        nb = 3 + extra
        case = None
        for _try in range(6):
            case = chainexec.gen_case(random.Random(rnd.randrange(1 << 30)), cfg, nb, 0.0, ["C01"], p_tx=0.5, p_fork=0.2)
            case.pop("horizon", None)
            r = chainexec.Run(case, ("C05",))
            r.execute()
            head = r.world.uni.nodes[r.cs.current_chain_hash]
            if ((head.height + 1) % cfg[0] == 0) == want_boundary:
                break
            nb += 1
        case.update(asm_off=asm_off, found_delay=found_delay, n_pool=rnd.randrange(0, 3), fee_sel=rnd.randrange(5), nonce0=rnd.randrange(1 << 32),
                    second_find=False, tick_every=tick_every, dead_peer=False, next_request=False, net_flush_race=False)
        try:
            fails, info = c12.execute(case)
        except env.HarnessError as e:
            res.error(str(e))
            return
        res.evaluations += 1
        res.count("miner_finds")
        res.count("miner_finds_at_retarget_boundary", 1 if info.get("boundary") else 0)
        if info.get("boundary"):
            res.nontrivial(env.digest(case))
        for f in fails:
            header = f["sig"].startswith("found-block-invalid:C05") or f["sig"] == "found-block-rejected-by-own-validation" or (
                f["sig"].startswith("found-block-handler-raised") and ("Header" in f["sig"] or "validate_block" in f["sig"] or "POW" in f["msg"]))
            if header:
                res.fail("assembly", "miner:" + f["sig"], "block assembled by the miner: " + f["msg"], {"miner_case": case})
            else:
                res.count("miner_failures_outside_C05")

    prop()
    # ... and with the REAL miner loop (Miner.__call__ in a thread) instead of the harness playing the miner
    rnd2 = random.Random(env.subseed(seed, ID, "real_miner"))
    for _ in range(6 if tier == "quick" else 60):
        case = {"real_miner": True, "hist_seed": rnd2.randrange(10 ** 6), "cfg": list(rnd2.choice(chainexec.CFGS[:3])), "n_blocks": rnd2.randrange(3, 9),
                "finds": rnd2.choice([1, 2, 3]), "nonce0": rnd2.randrange(1 << 30)}
        try:
            fails, info = c12.real_miner_sessions(case)
        except env.HarnessError as e:
            res.error(str(e))
            continue
        res.evaluations += 1
        res.count("real_miner_loop_sessions")
        res.count("real_miner_loop_finds", info.get("finds", 0))
        if info.get("finds"):
            res.nontrivial(env.digest(case))
        for f in fails:
            if f["sig"].startswith("found-block-invalid:C05") or (f["sig"].startswith("miner-loop-died") and ("Validate" in f["msg"] or "POW" in f["msg"])):
                res.fail("assembly", "miner:" + f["sig"], "block assembled by the real miner loop: " + f["msg"], {"miner_case": case})
            else:
                res.count("miner_failures_outside_C05")
    res.sample({"miner_path": "MinerWatcher request/answer loop with a ticking clock, 60% of the heads just below a retarget boundary; plus the real Miner.__call__ loop in a thread"})


def run(shard, tier, seed):
    res = Result()
    if shard["kind"] == "arith":
        _arith(res, tier, seed)
        return res
    if shard["kind"] == "pow_slices":
        _pow_slices(res, tier, seed)
        return res
    if shard["kind"] == "assembly":
        _assembly(res, tier, seed, shard["i"])
        return res
    if shard["kind"] == "miner":
        _miner(res, tier, seed)
        return res
    n = 25 if tier == "quick" else 400
    nb = (8, 18) if tier == "quick" else (8, 30)
    orig = chainexec.Run.execute

    def execute_and_compare(self):
        out = orig(self)
        if not getattr(self, "_ev_done", False) and self.focus == FOCUS:
            self._ev_done = True
            if not _shrinking[0]:
                _evidence(res, self)
        return out

    _shrinking = [False]
    chainexec.Run.execute = execute_and_compare
    try:
        if shard["i"] in (8, 9):
            # long histories whose candidates (honest and broken) sit on parents more than 20 blocks below the head
            return chainexec.drive(res, env.subseed(seed, ID, shard["i"]), n // 2, tier, FOCUS, CATS, ID, n_blocks=(30, 38), p_mut=0.5,
                                   p_fork=0.1, p_deep_fork=0.45, deep_min=21, p_tx=0.3, p_restart=0.0,
                                   c05_extra_tags=["ev_forged_summary"] * 14 + ["ev0", "ev1", "ev2", "pow_bad"])
        r = chainexec.drive(res, env.subseed(seed, ID, shard["i"]), n, tier, FOCUS, CATS, ID, n_blocks=nb, p_mut=0.45, p_deep=0.25,
                            p_fork=0.55, dts_mix=[None, [60, 90, 120, 150, 240, 400], [100, 120, 140, 1000]], deep_vlq_edge=0.3)
    finally:
        chainexec.Run.execute = orig
    return r


def replay(case):
    if "miner_case" in case:
        from vf.props import c12
        if case["miner_case"].get("real_miner"):
            return [dict(f, sig="miner:" + f["sig"]) for f in c12.real_miner_sessions(case["miner_case"])[0]]
        return [dict(f, sig="miner:" + f["sig"]) for f in c12.execute(case["miner_case"])[0]]
    if "prev" in case:
        env.import_repo()
        import skepticoin.consensus as C
        pb = int(case["prev"], 16).to_bytes(32, "big")
        if C.calculate_new_target(pb, case["elapsed"]) != R.retarget(pb, case["elapsed"]):
            return [{"kind": "retarget", "sig": "retarget!=reference", "msg": "calculate_new_target differs"}]
        return []
    if "target" in case and "hash" in case:
        env.import_repo()
        import skepticoin.consensus as C
        a, b = bytes.fromhex(case["hash"]), bytes.fromhex(case["target"])
        try:
            C.validate_proof_of_work(a, b)
            ok = True
        except C.ValidatePOWError:
            ok = False
        return [] if ok == (a < b) else [{"kind": "pow_compare", "sig": "pow-comparison", "msg": "comparison wrong"}]
    if "blen" in case or "height" in case:
        res = Result()
        _pow_slices(res, "quick", 1)
        return res.failures
    if "assembly_case" in case:
        res = Result()
        import random
        c = case["assembly_case"]
        for s in range(20):
            run_ = AssemblyRun(c, FOCUS)
            run_.execute()
            run_.assemble(res, random.Random(s))
            if run_.fails:
                return run_.fails
        return []
    if "evidence_of" in case:
        res = Result()
        r = chainexec.Run(case, FOCUS)
        r.execute()
        _evidence(res, r)
        return res.failures
    return chainexec.replay(case, FOCUS)
