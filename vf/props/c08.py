"""C08 -- persistence fidelity: the block store returns what was written (histories x flush batchings x reloads)."""
import os

import hypothesis
from hypothesis import given, settings, strategies as st

from vf import chainexec, env, refmodel as R
from vf.result import Result, exc_sig
from vf.shrink import shrink_list

ID = "C08"
LEVEL = "exploration"
RULE = ("Hypothesis-drawn validated histories (forks, multi-input/-output spends, reorganisations; in half of them also the "
        "same transaction mined on two forks and identical reward transactions on siblings) with a drawn batching of the "
        "accepted blocks into add_block_to_buffer / flush calls (directly and through DiskInterface + DefaultBlockStore) and a "
        "reload after EVERY flush (file closed, new BlockStore; also read through the writing connection); in 30% of the histories "
        "another thread buffers the next block while a flush is inside its SQL write (schedule injection at that point); through "
        "the disk interface some batches are buffered, dropped from the buffer (as a rollback does) and handed over again; in 30% a "
        "flush fails at a drawn SQL statement (disk full, injected below the store) and the process restarts: every block of the "
        "earlier flushes must be there byte for byte and no torn block may be read. Histories include rewards with no, several "
        "and zero-valued outputs and conflicting spends of one output on competing branches. Oracle: "
        "read_blocks_from_disk() == written blocks + genesis: same id set, byte-identical serialize(), id == sha256d(header), "
        "parents before children; rebuilding as scripts.utils.read_chain_from_disk does raises nowhere, gives reference-equal "
        "unspent maps at every block and a head of the live height. A mismatch is classified against a deliberately faulty "
        "second reference ('first writer of a transaction id keeps it') to recognise known finding C08-F1 exactly; anything else "
        "is a violation. non-trivial = history with >= 1 fork and >= 1 spend and >= 2 flushes; distinct = digest of (ops, batching).")
ASSUMPTIONS = ["test configuration (fast scrypt stand-in)", "SQLite file in a private temp directory"]
MIN_NONTRIVIAL = {"quick": 60, "thorough": 1000}
F1 = "C08-F1:first-writer-of-a-transaction-id-keeps-it"


def faulty_model(written):
    """what a store with 'transaction id is the primary key + insert-or-ignore' returns: {block id: bytes or None}"""
    seen = set()
    out = {}
    for blk in written:
        kept = [t for t in blk.txs if t.id() not in seen]
        seen.update(t.id() for t in blk.txs)
        if blk.id() in out:
            continue
        out[blk.id()] = (blk.header_raw() + R.vlq(len(kept)) + b"".join(t.raw() for t in kept)) if kept else None
    return out


def execute(case):
    """case: {"cfg","ops","batches":[n1,n2,...], "via": "store"|"disk_interface"}"""
    env.import_networking()
    from skepticoin import blockstore as BS
    from skepticoin.networking.disk_interface import DiskInterface
    from skepticoin.scripts.utils import read_chain_from_disk
    from vf import build as b
    fails = []
    info = {"flushes": 0, "shared_ids": False, "f1_hit": False}

    def fail(kind, sig, msg):
        if not any(f["sig"] == sig for f in fails):
            fails.append({"kind": kind, "sig": sig, "msg": msg})

    run = chainexec.Run({"cfg": case["cfg"], "ops": case["ops"]}, ("C08",))
    run.execute()
    if run.degenerate():
        raise env.HarnessError(run.harness[0])
    led = run.world.uni
    accepted = [run.world.blocks[o["label"]] for o in case["ops"] if o["label"] in run.world.blocks]
    d = env.fresh_subdir("c08")
    path = os.path.join(d, "chain.db")
    with env.quiet():
        store = BS.BlockStore(path)
    old_default = BS.DefaultBlockStore.instance
    BS.DefaultBlockStore.instance = store
    di = DiskInterface()
    written = [led.genesis.blk]
    seen_tx = {t.id() for t in led.genesis.blk.txs}
    pos = 0
    try:
        for nb in case["batches"]:
            batch = accepted[pos:pos + nb]
            pos += nb
            if not batch:
                continue
            for blk in batch:
                skb = b.to_sk_block(blk) if case.get("form") != "bytes" else run.Block.deserialize(blk.raw())
                if case.get("via") == "disk_interface":
                    di.save_block(skb)
                else:
                    store.add_block_to_buffer(skb)
                for t in blk.txs:
                    if t.id() in seen_tx:
                        info["shared_ids"] = True
                    seen_tx.add(t.id())
            if case.get("via") == "disk_interface" and case.get("resave"):
                # what the relay path does when a bad block forces a rollback: the write buffer is emptied directly, and the
                # good blocks, downloaded again, are handed to the disk interface a second time
                store.write_buffer.clear()
                for blk in batch:
                    di.save_block(b.to_sk_block(blk))
                info["resaved_batches"] = info.get("resaved_batches", 0) + 1
            racer = None
            if case.get("interleave") and pos < len(accepted):
                # schedule injection: while this flush is inside its SQL write, another thread (the network thread in
                # production) buffers the next block.  Correct code makes that thread wait or keeps its block.
                import threading
                late = accepted[pos]
                pos += 1
                orig_write = store.write_blocks_to_disk
                state = {"fired": False}

                after = bool(case.get("interleave_after"))

                def write_and_interleave(blocks):
                    fire = not state["fired"]
                    state["fired"] = True
                    r = None
                    if fire and after:
                        r = orig_write(blocks)           # ... the other thread arrives when the rows are already written
                    if fire:
                        t = threading.Thread(target=lambda: store.add_block_to_buffer(b.to_sk_block(late)))
                        t.daemon = True
                        t.start()
                        t.join(0.1)                      # bounded wait only; correctness never depends on who wins
                        state["thread"] = t
                    return r if (fire and after) else orig_write(blocks)

                store.write_blocks_to_disk = write_and_interleave
                racer = (late, state, orig_write)
                info["interleaved_appends"] = info.get("interleaved_appends", 0) + 1
            if case.get("disk_full") and case["disk_full"][0] == info["flushes"] and racer is None:
                # fault injection: the disk is full at the k-th SQL statement of THIS flush and the process dies on the error;
                # at the next start the store must hold every block of the earlier flushes byte for byte and no torn block
                real = store.connection
                store.connection = chainexec.FaultyConnection(real, case["disk_full"][1])
                try:
                    store.flush_blocks_to_disk()
                    info["disk_full_not_reached"] = 1
                except chainexec.DiskFull:
                    info["disk_full_faults"] = info.get("disk_full_faults", 0) + 1
                except Exception as e:
                    fail("flush", "flush-raised:" + exc_sig(e), "flush with a full disk raised %r" % (e,))
                store.connection = real
                store.close()
                with env.quiet():
                    store = BS.BlockStore(path)
                try:
                    got_list = list(store.read_blocks_from_disk())
                except Exception as e:
                    fail("read", "read-raised-after-failed-flush:" + exc_sig(e), "after a flush that failed on a full disk and a restart, read_blocks_from_disk raised %r" % (e,))
                    break
                handed = {x.id(): x.raw() for x in written + batch}
                got = {g.hash(): g.serialize() for g in got_list}
                torn = [k for k in got if k not in handed or got[k] != handed[k]]
                lost = [x.id() for x in written if x.id() not in got]
                explained = info["shared_ids"] and all(faulty_model(written + batch).get(k) == got[k] for k in torn)
                if torn and not explained:
                    fail("read", "torn-block-after-failed-flush", "after a flush that failed on a full disk (statement %d) and a restart, %d stored block(s) differ from every block that was handed to the store" % (
                        case["disk_full"][1], len(torn)))
                if lost:
                    fail("read", "flushed-block-lost-after-failed-flush", "after a later flush failed on a full disk, %d block(s) of EARLIER, completed flushes are gone" % len(lost))
                break
            try:
                if case.get("via") == "disk_interface":
                    di.flush_blocks()
                else:
                    store.flush_blocks_to_disk()
                if racer is not None:
                    late, state, orig_write = racer
                    store.write_blocks_to_disk = orig_write
                    if state.get("thread") is not None:
                        state["thread"].join(5)
                    for t in late.txs:
                        if t.id() in seen_tx:
                            info["shared_ids"] = True
                        seen_tx.add(t.id())
                    store.flush_blocks_to_disk()         # the late block is written by the next flush at the latest
                    batch = batch + [late]
            except Exception as e:
                fail("flush", "flush-raised:" + exc_sig(e), "flush of %d blocks raised %r" % (len(batch), e))
                break
            info["flushes"] += 1
            written.extend(batch)
            # reload: same connection and a fresh one
            readers = [("same-connection", store)]
            with env.quiet():
                fresh = BS.BlockStore(path)
            readers.append(("reopened", fresh))
            want = {x.id(): x.raw() for x in written}
            model = faulty_model(written)
            for rname, st_ in readers:
                try:
                    got_list = list(st_.read_blocks_from_disk())
                except Exception as e:
                    fail("read", "read-raised:" + exc_sig(e), "%s: read_blocks_from_disk raised %r" % (rname, e))
                    continue
                got = {}
                order_ok = True
                seen_ids = set()
                for g in got_list:
                    gid = g.hash()
                    if gid in got:
                        fail("read", "block-read-twice", "%s: a block is returned twice" % rname)
                    got[gid] = g.serialize()
                    if g.previous_block_hash != b"\x00" * 32 and g.previous_block_hash not in seen_ids:
                        order_ok = False
                    seen_ids.add(gid)
                    if gid != R.sha256d(g.header.serialize()):
                        fail("read", "id!=sha256d(header)", "%s: a block read back carries an id that is not the hash of its header" % rname)
                if got == want:
                    if not order_ok:
                        fail("order", "child-before-parent", "%s: a child is returned before its parent" % rname)
                    continue
                # mismatch: exactly the known faulty behaviour?
                got_cmp = {k: v for k, v in got.items()}
                model_cmp = {k: v for k, v in model.items() if v is not None}
                if got_cmp == model_cmp and info["shared_ids"]:
                    info["f1_hit"] = True
                    fail("known", F1, "%s: a transaction id present in two stored blocks (same pending transaction on two forks / identical reward transactions) is returned only with the first-written block; %d of %d blocks differ or are missing" % (
                        rname, sum(1 for k in want if got.get(k) != want[k]), len(want)))
                else:
                    missing = [k for k in want if k not in got]
                    extra = [k for k in got if k not in want]
                    diff = [k for k in want if k in got and got[k] != want[k]]
                    fail("read", "read-back!=written", "%s: read-back differs from what was written (missing %d, extra %d, content differs %d of %d)" % (
                        rname, len(missing), len(extra), len(diff), len(want)))
            fresh.close()
            if fails:
                break
            # rebuild exactly as a restarting node does
            BS.DefaultBlockStore.instance = store
            import skepticoin.scripts.utils as U
            real_time = getattr(U, "time", None)
            if case.get("clock_behind") and real_time is not None:
                # the machine's clock at the restart is BEHIND the stored blocks (dead RTC battery, restored VM snapshot): what a
                # node rebuilds from its own intact store must not depend on the wall clock
                U.time = lambda: 1_000_000
                info["rebuilds_with_clock_behind"] = info.get("rebuilds_with_clock_behind", 0) + 1
            try:
                with env.quiet():
                    cs = read_chain_from_disk()
            finally:
                if real_time is not None:
                    U.time = real_time
            live_h = max(led.nodes[x.id()].height for x in written)
            if len(cs.block_by_hash) != len(written):
                fail("rebuild", "rebuild-lost-blocks", "rebuilt state has %d blocks, %d were written" % (len(cs.block_by_hash), len(written)))
            elif cs.head().height != live_h:
                fail("rebuild", "rebuild-head-height", "rebuilt head height %d, live %d" % (cs.head().height, live_h))
            else:
                for x in written:
                    if b.sk_utxo_plain(cs, x.id()) != led.nodes[x.id()].utxo:
                        fail("rebuild", "rebuild-ledger-differs", "rebuilt unspent set at height %d differs from the reference" % led.nodes[x.id()].height)
                        break
    finally:
        BS.DefaultBlockStore.instance = old_default
        try:
            store.close()
        except Exception:
            pass
    tips = len(led.tips())
    spends = sum(1 for x in accepted if len(x.txs) > 1)
    info["nontrivial"] = tips > 1 and spends >= 1 and info["flushes"] >= 2
    info["blocks"] = len(accepted)
    return fails, info


def shards(tier):
    return [{"kind": "hist", "i": i} for i in range(16)] + [{"kind": "relay_rollback"}]


STORE_SIGS = ("store-holds-blocks-the-node-dropped", "accepted-block-not-in-store", "rejected-block-in-store")


def run_relay_rollback(tier, seed, only=None):
    """The store as the running node fills it: a batch of answers is buffered, a relayed block is refused (chain state rolls back,
    the buffered answers are dropped with it), a valid block follows and is flushed, the node restarts.  The store must then hold
    what the node held -- nothing written after the refusal that the node had dropped, and the valid block.  The scenario is the
    relay check's (vf/props/c09.py run_bulk_boundary); only its statements about the STORE are this property's."""
    from vf.props import c09
    res = Result()
    inner = c09.run_bulk_boundary(Result(), tier, seed, only=only)
    res.evaluations = inner.evaluations
    res.errors.extend(inner.errors)
    for d in inner.digests:
        res.nontrivial("relay_rollback:" + str(d))
    for f in inner.failures:
        if f["sig"] in STORE_SIGS:
            res.fail(f["kind"], f["sig"], f["msg"], {"relay_rollback": f["case"]["bulk_boundary"]})
    return res


def run(shard, tier, seed):
    if shard["kind"] == "relay_rollback":
        res = run_relay_rollback(tier, seed)
        res.count("relay_rollback_scenarios", len(res.digests))
        return res
    res = Result()
    n = 14 if tier == "quick" else 350
    found = {}

    @hypothesis.seed(env.subseed(seed, ID, shard["i"]))
    @settings(max_examples=n, deadline=None, database=None, suppress_health_check=list(hypothesis.HealthCheck), phases=[hypothesis.Phase.generate])
    @given(st.randoms(use_true_random=True), st.sampled_from(chainexec.CFGS), st.integers(5, 14 if tier == "quick" else 26), st.booleans(),
           st.sampled_from(["store", "disk_interface"]), st.sampled_from(["obj", "bytes"]))
    def prop(rnd, cfg, nb, shared, via, form):
        opts = dict(p_fork=0.5, p_tx=0.8, zero_rewards=True, p_unusual=0.3, max_tx=4, p_binary_cbdata=0.35)
        res.count("generated")
        if shared:
            opts.update(p_copy=0.35, p_same_cb=0.3)
        if shard["i"] >= 14 and res.counters.get("generated", 0) % 2 == 0:
            nb = 52 + nb          # more than 50 rows, siblings at every height: anything that pages, caps or batches shows here
            opts.update(p_tx=0.4, p_sibling=0.35, p_fork=0.2)
            res.count("trees_of_more_than_50_blocks")
        case = chainexec.gen_case(rnd, cfg, nb, 0.0, ["C01"], **opts)
        batches = []
        left = nb
        while left > 0:
            k = min(left, rnd.choice([1, 1, 2, 3, 5]))
            batches.append(k)
            left -= k
        case.update(batches=batches, via=via, form=form, interleave=rnd.random() < 0.35, interleave_after=rnd.random() < 0.5, resave=rnd.random() < 0.4)
        case["clock_behind"] = rnd.random() < 0.5
        if rnd.random() < 0.3:
            case.update(disk_full=[rnd.randrange(len(batches)), rnd.randrange(0, 6)], interleave=False)
        try:
            fails, info = execute(case)
        except env.HarnessError as e:
            res.error(str(e))
            return
        res.count("disk_full_faults", info.get("disk_full_faults", 0))
        res.count("rebuilds_with_clock_behind", info.get("rebuilds_with_clock_behind", 0))
        res.evaluations += info["flushes"]
        res.count("histories")
        res.count("histories_shared_ids_switch" if shared else "histories_shared_ids_excluded")
        if info["shared_ids"]:
            res.count("histories_with_a_transaction_id_in_two_blocks")
        if info["nontrivial"]:
            res.nontrivial(env.digest(case))
        if res.counters["histories"] in (1, 8):
            res.sample({"cfg": case["cfg"], "tree": [(o["label"], o["parent"], len(o["txs"])) for o in case["ops"]], "batches": batches, "via": via})
        for f in fails:
            if f["sig"] not in found:
                found[f["sig"]] = (f, case)
            res.count("fail:" + f["sig"])

    prop()
    for sig, (f, case) in found.items():
        def still(ops):
            c = dict(case, ops=ops, batches=[1] * len(ops))
            try:
                return any(x["sig"] == sig for x in execute(c)[0])
            except Exception:
                return False
        ops = shrink_list(case["ops"], still, 25) if still(case["ops"]) else case["ops"]
        small = dict(case, ops=ops, batches=[1] * len(ops)) if ops is not case["ops"] else case
        res.fail(f["kind"], sig, f["msg"], small)
    return res


def replay(case):
    if "relay_rollback" in case:
        return run_relay_rollback("quick", 1, only=case["relay_rollback"]).failures
    return execute(case)[0]
