"""C12 -- mining: assembled blocks are valid, pay subsidy plus fees, and are adopted (real MinerWatcher handlers)."""
import os

import hypothesis
from hypothesis import given, settings, strategies as st

from vf import chainexec, env, refmodel as R
from vf.keys import KEYS
from vf.result import Result, exc_sig

ID = "C12"
LEVEL = "exploration"
RULE = ("Hypothesis-drawn chain states (forked histories under short retarget periods, heads at retarget boundaries, fabricated "
        "deep states with the real period) x pools of 0-6 transactions admitted through the node's own add_transaction_to_pool "
        "(fees 0 .. all-but-one) x clocks (assembly time from head-30 to head+10^4, found time >= assembly time, the clock "
        "ticking every 0/1/3/40 attempts) with, in 30% of the cases, a third peer whose connection is being torn down at the "
        "instant of the broadcast, and in 30% the networking thread being inside a store flush when the find is handed to the store "
        "(schedule injection), and in 25% a valid block relayed just before the find whose flush fails once with an I/O error (injected "
        "below the store). The REAL "
        "MinerWatcher.handle_request_scrypt_input_message / handle_scrypt_output_message run on an instance wired to a simulated "
        "node with two greeted peers and the real block store; the harness plays the miner process (summary hash per nonce) "
        "until a block is found. Oracle: the found block is reference-valid at the found-time clock and accepted by add_block; "
        "its reward is exactly one output of subsidy_ref(h) + reference fees to the miner's key; timestamp > parent's; it "
        "contains the pooled transactions; afterwards ChainManager.coinstate contains it as head, the reopened store holds it "
        "byte-identically, and every active peer got exactly one unsolicited block message carrying it; in half of the cases a "
        "second mining process (its candidates requested through the real request handler BEFORE the first find) then reports a "
        "winning candidate on the SAME parent: that block, which does not extend the head, must be in "
        "the served state (head unchanged), stored and broadcast once. non-trivial = find with "
        ">= 1 pooled transaction or an assembly clock <= the head's time or a head at a retarget boundary; distinct = digest of "
        "the case.")
ASSUMPTIONS = ["sequential hand-over (no real thread races between miner, watcher and network thread)",
               "simnet transport model; test configuration (fast scrypt stand-in through the same code path)"]
MIN_NONTRIVIAL = {"quick": 80, "thorough": 2000}
F2 = "C12-F2:candidate-time-ahead-of-own-clock"
F3 = "C12-F3:found-block-shares-a-transaction-id-with-a-stored-block"


class Q:
    def __init__(self):
        self.items = []

    def put(self, x):
        self.items.append(x)


class NT:
    pass


def margs(mw, i=0):
    """(summary, height, transactions) of the candidate miner i is working on -- found by type, so that extra bookkeeping
    fields in the watcher's record do not break the harness"""
    rec = mw.mining_args[i]
    summary = next(x for x in rec if hasattr(x, "nonce") and hasattr(x, "previous_block_hash"))
    height = next(x for x in rec if isinstance(x, int) and not isinstance(x, bool))
    txs = next(x for x in rec if isinstance(x, list))
    return summary, height, txs


def execute(case):
    from vf import simnet, build as b
    env.import_networking()
    with env.quiet():
        import skepticoin.mining as MI
    from skepticoin import blockstore as BS, consensus as C
    from skepticoin.networking import messages as M
    from skepticoin.wallet import Wallet
    from datetime import datetime
    fails = []
    info = {"found": 0, "pool": 0, "boundary": False, "early_clock": False}

    def fail(kind, sig, msg):
        if not any(f["sig"] == sig for f in fails):
            fails.append({"kind": kind, "sig": sig, "msg": msg})

    if not hasattr(MI, "time"):
        raise env.HarnessError("mining.time missing")
    run = chainexec.Run({k: case[k] for k in ("cfg", "ops", "deep") if k in case}, ("C12",))
    run.execute()
    if run.degenerate():
        raise env.HarnessError(run.harness[0])
    led = run.world.uni
    cs = run.cs
    head = led.nodes[cs.current_chain_hash]
    d = env.fresh_subdir("c12")
    cwd = os.getcwd()
    os.chdir(d)
    with env.quiet():
        store = BS.BlockStore(os.path.join(d, "chain.db"))
    old_default = BS.DefaultBlockStore.instance
    BS.DefaultBlockStore.instance = store
    simnet.install()
    MI.time = lambda: simnet.CLOCK.now

    def virtual_sleep(sec):                  # the watcher may wait for the clock: virtual time advances instead
        simnet.CLOCK.now += 1
    if hasattr(MI, "sleep"):
        MI.sleep = virtual_sleep
    try:
        net = simnet.Net()
        simnet.CLOCK.now = head.blk.ts + 40
        deep = bool(case.get("deep"))
        if deep:
            disk_if = simnet.RecDisk()               # a fabricated deep base has no storable ancestry: record the calls instead
        else:
            disk_if = simnet.StoreDisk()
            store.write_blocks_to_disk([b.to_sk_block(led.nodes[i].blk) for i in led.order[1:]])
        node = net.add("miner", "10.0.0.1", cs, 5, disk=disk_if)
        node.cm.started_at = -10 ** 9
        # (shared_host: the peers are different nodes behind ONE address -- one machine / one NAT -- told apart by port only)
        peers = [simnet.Wire(net, node, host="10.0.3.2" if case.get("shared_host") else "10.0.3.%d" % (i + 2)) for i in range(3 if case.get("dead_peer") else 2)]
        for i, w in enumerate(peers):
            w.greet(nonce=900 + i)
        dead = None
        if case.get("dead_peer"):
            # the networking thread is tearing this connection down at the instant the miner broadcasts: its socket is no
            # longer registered, so queuing a message for it fails -- the other peers must still get the block
            dead = peers.pop(1)
            node.lp.selector.unregister(dead.node_sock)
        if case.get("net_flush_fails") and not deep:
            # environment fault just BEFORE the find: a peer relays a valid block P, the node adopts it, but the flush that
            # follows fails once (disk I/O error; the per-connection catch-all swallows it, that peer is dropped).  The miner
            # then finds its block on top of P: both must be in the store afterwards.
            plabel = next(l for l, x in run.world.blocks.items() if x.id() == head.id)
            P = run.world.build_block({"label": "netP", "parent": plabel, "miner": 6, "dt": run.world.safe_dt(head, 40), "txs": []})
            if P is not None and not led.validate(P, P.ts):
                orig_write = store.write_blocks_to_disk
                fired = {}

                def failing_write(blocks):
                    if not fired:
                        fired["x"] = 1
                        raise OSError(5, "Input/output error")
                    return orig_write(blocks)

                store.write_blocks_to_disk = failing_write
                simnet.CLOCK.now = max(simnet.CLOCK.now, P.ts)
                try:
                    peers[0].send(M.DataMessage(M.DATA_BLOCK, b.to_sk_block(P)))
                    peers[0].deliver()
                    net.drain(None, only=[node])
                finally:
                    store.write_blocks_to_disk = orig_write
                if fired and P.id() in node.cm.coinstate.block_by_hash:
                    run.world.accept("netP", P)
                    head = led.nodes[P.id()]
                    cs = node.cm.coinstate
                    info["net_flush_failures"] = 1
                    if not peers[0].connected:
                        peers[0] = simnet.Wire(net, node, host="10.0.3.9")
                        peers[0].greet(nonce=990)
                del net.escaped[:]
        # pool through the node's own admission
        spendable = sorted((r, o) for r, o in head.utxo.items() if o[0] >= 2 and any(k.pub == o[1] for k in KEYS))
        fees = 0
        pool = []
        for j, (ref, o) in enumerate(spendable[:case["n_pool"]]):
            k = next(k for k in KEYS if k.pub == o[1])
            fee = min(o[0] - 1, [0, 1, 1234, o[0] - 1, o[0] // 2][(case["fee_sel"] + j) % 5])
            tx = R.RTx([(ref[0], ref[1], ("se",))], [(o[0] - fee, KEYS[(j + 1) % len(KEYS)].pub)])
            tx.ins = [(ref[0], ref[1], ("sig", k.sign(R.signing_message(tx))))]
            if not node.cm.add_transaction_to_pool(b.to_sk_tx(tx.touch())):
                raise env.HarnessError("valid pool transaction refused")
            pool.append(tx)
            fees += fee
        if case.get("reorg_after_pool") and not deep and pool and head.height >= 1 and not info.get("net_flush_failures"):
            # history between admission and the find: ANOTHER miner's block S competes with our head (same height) and confirms
            # the first pending payment; then S is extended by S2 -> a reorganisation of depth 1 onto a head one higher than before.
            # What is still pending afterwards must be spendable at the new head (and only that goes into the candidate).
            w_ = run.world
            hl = next(l for l, x in w_.blocks.items() if x.id() == head.id)
            pl = next(l for l, x in w_.blocks.items() if x.id() == head.blk.prev)
            pn = led.nodes[head.blk.prev]
            conf = [t for t in pool if all((i[0], i[1]) in pn.utxo for i in t.ins)][:1]
            for j, t in enumerate(conf):
                w_.txs["pooled%d" % j] = t
            S = w_.build_block({"label": "reorgS", "parent": pl, "miner": 2, "dt": w_.safe_dt(pn, max(1, head.blk.ts - pn.blk.ts)), "txs": [{"copy": "pooled%d" % j} for j in range(len(conf))]})
            if S is not None and not led.validate(S, S.ts):
                w_.accept("reorgS", S)
                S2 = w_.build_block({"label": "reorgS2", "parent": "reorgS", "miner": 3, "dt": w_.safe_dt(led.nodes[S.id()], 7), "txs": []})
                if S2 is not None and not led.validate(S2, S2.ts):
                    simnet.CLOCK.now = max(simnet.CLOCK.now, S2.ts)
                    for blk_ in (S, S2):
                        peers[0].send(M.DataMessage(M.DATA_BLOCK, b.to_sk_block(blk_)))
                        peers[0].deliver()
                        net.drain(None, only=[node])
                    if node.cm.coinstate.current_chain_hash == S2.id():
                        w_.accept("reorgS2", S2)
                        head = led.nodes[S2.id()]
                        cs = node.cm.coinstate
                        info["reorg_after_pool"] = 1
                        keep = [t for t in pool if all((i[0], i[1]) in head.utxo for i in t.ins)]
                        got_ids = [t.hash() for t in node.cm.transaction_pool]
                        keep_ids = {t.id() for t in keep}
                        if any(i not in keep_ids for i in got_ids):
                            # (holding FEWER than could be kept is a policy the node is free to have; holding a payment whose
                            # input is gone at the new head is what poisons every candidate from here on)
                            fail("pool", "pending-transaction-unspendable-after-reorganisation", "after a reorganisation of depth 1 the node still holds %d pending transaction(s) whose inputs are not unspent at the new head (%d held, %d admitted before)" % (
                                sum(1 for i in got_ids if i not in keep_ids), len(got_ids), len(pool)))
                        in_pool = {t.id(): t for t in pool}
                        pool = [in_pool[i] for i in got_ids if i in keep_ids]
                        fees = sum(sum(head.utxo[(i[0], i[1])][0] for i in t.ins) - sum(v for v, _pk in t.outs) for t in pool)
                        for w in peers:
                            w.collect()
        info["pool"] = len(pool)
        info["boundary"] = (head.height + 1) % case["cfg"][0] == 0
        wk = [KEYS[i] for i in (4, 5, 6, 7)]
        wallet = Wallet({k.pub: k.priv for k in wk}, [k.pub for k in wk], {})
        mw = MI.MinerWatcher.__new__(MI.MinerWatcher)
        nt = NT()
        nt.local_peer = node.lp
        mw.network_thread = nt
        mw.send_queues = [Q()]
        mw.mining_args = {}
        mw.hash_stats = {}
        mw.coinstate = cs

        class A:
            quiet = True
        mw.args = A()
        mw.log_silencer = []
        mw.start_time = datetime.fromtimestamp(1)
        mw.wallet = wallet
        mw.public_key = wallet.get_annotated_public_key("reserved for potentially mined block")
        mw.balance = mw.start_balance = 0
        miner_key = mw.public_key
        t_asm = head.blk.ts + case["asm_off"]
        t_found = t_asm + case["found_delay"]
        info["early_clock"] = case["asm_off"] <= 0
        for w in peers:
            w.collect()
        marks = [len(w.received) for w in peers]
        found = None
        err = None
        pending1 = None
        if case.get("second_find") and not deep:
            # a SECOND miner process (-n 2) asks for candidates on the same head until it holds a winning one; its answer is
            # reported only after the first process's find (below)
            from skepticoin.datatypes import Block as _B1, BlockHeader as _BH1
            mw.send_queues.append(Q())
            simnet.CLOCK.now = t_asm
            for nonce1 in range(case["nonce0"] + 100_000, case["nonce0"] + 160_000):
                with env.quiet():
                    mw.handle_request_scrypt_input_message(1, nonce1 & 0xFFFFFFFF)
                _mt, (s1, h1) = mw.send_queues[1].items[-1]
                del mw.send_queues[1].items[:]
                sh1 = C.construct_summary_hash(s1, h1)
                txs1 = margs(mw, 1)[2]
                b1 = _B1(_BH1(s1, C.construct_pow_evidence_after_scrypt(sh1, mw.coinstate, s1, h1, txs1)), txs1)
                if b1.hash() < s1.target:
                    pending1 = (sh1, b1)
                    break
        tick_every = case.get("tick_every", 0)
        t_asm0 = t_asm
        for n_try, nonce in enumerate(range(case["nonce0"], case["nonce0"] + 60_000)):
            if tick_every and n_try and n_try % tick_every == 0:
                t_asm += 1                                   # the clock moves on between attempts, as it does in reality
                t_found = max(t_found, t_asm)
            simnet.CLOCK.now = t_asm
            try:
                with env.quiet():
                    mw.handle_request_scrypt_input_message(0, nonce & 0xFFFFFFFF)
            except Exception as e:
                fail("assembly", "candidate-assembly-raised:" + exc_sig(e), "the watcher's handler for a miner's request for work raised %r (head h=%d, %d pending transactions%s): the message loop dies, no block is found any more" % (
                    e, head.height, len(node.cm.transaction_pool), ", after a reorganisation" if info.get("reorg_after_pool") else ""))
                info["found"] = 0
                info.setdefault("boundary", False)
                return fails, info
            mt, (summary, height) = mw.send_queues[0].items[-1]
            del mw.send_queues[0].items[:]
            state_before = mw.coinstate
            sh = C.construct_summary_hash(summary, height)
            t_found = max(t_found, simnet.CLOCK.now)          # the request handler may have waited
            simnet.CLOCK.now = t_found
            race = None
            if case.get("net_flush_race") and not deep:
                # is this nonce a find?  (same computation as the handler)  If so, stage the race first.
                ev_ = C.construct_pow_evidence_after_scrypt(sh, mw.coinstate, summary, height, margs(mw)[2])
                from skepticoin.datatypes import Block as _B, BlockHeader as _BH
                if _B(_BH(summary, ev_), margs(mw)[2]).hash() < summary.target:
                    race = stage_net_flush_race(store, run, led, head, b, info)
            try:
                with env.quiet():
                    mw.handle_scrypt_output_message(0, sh)
                if race:
                    race()
            except Exception as e:
                if deep and isinstance(e, KeyError) and "chain_at_hash" in exc_sig(e):
                    # harness artefact: the handler's very last statement (wallet balance) walks the ancestors, which a
                    # fabricated deep base does not have; everything the property talks about has happened before
                    found = ("ok", margs(mw)[0], margs(mw)[2], sh)
                    break
                err = e
                # the candidate the handler was working on
                s2, h2, txs2 = margs(mw)
                found = ("raised", s2, txs2, sh)
                break
            if mw.coinstate is not state_before or mw.public_key != miner_key:
                found = ("ok", margs(mw)[0], margs(mw)[2], sh)
                break
        if found is None:
            # the history drove the difficulty so high that 60,000 attempts do not find a block: nothing to judge in this case
            info["found"] = 0
            info["unminable"] = 1
            info.setdefault("pool", len(pool))
            info.setdefault("boundary", False)
            return fails, info
        info["found"] = 1
        summary, txs = found[1], found[2]
        ev = C.construct_pow_evidence_after_scrypt(found[3], state_before, summary, summary.height, txs)
        from skepticoin.datatypes import Block, BlockHeader
        blk_sk = Block(BlockHeader(summary, ev), txs)
        plain = b.from_sk_block(blk_sk)
        bid = plain.id()
        tag = "h=%d pool=%d asm=head%+d found=+%d" % (plain.height, len(pool), case["asm_off"], case["found_delay"])
        if err is not None:
            future = t_found + 30 < head.blk.ts + 1
            if future and type(err).__name__ == "ValidateBlockHeaderError" and "future" in str(err):
                fail("known", F2, "head timestamp = clock + 30 and the block is found within the same second: the candidate's timestamp (head+1 = clock+31) is refused by the node's own future-time rule and the exception leaves the found-block handler (%s)" % tag)
            else:
                fail("found", "found-block-handler-raised:" + exc_sig(err), "found-block handler raised %r (%s)" % (err, tag))
            return fails, info
        verdict = led.validate(plain, t_found)
        if verdict:
            fail("found", "found-block-invalid:" + verdict[0], "the block the miner assembled and found violates %s (%s)" % (verdict, tag))
        try:
            state_before.add_block(blk_sk, t_found)
        except Exception as e:
            fail("found", "found-block-rejected-by-own-validation", "add_block refuses the found block: %r (%s)" % (e, tag))
        cb = plain.txs[0]
        want = R.subsidy(plain.height) + fees
        if len(cb.outs) != 1 or cb.outs[0][1] != miner_key or cb.outs[0][0] != want:
            fail("reward", "reward-not-exact", "reward outputs %s, expected exactly one output of %d (subsidy %d + fees %d) to the miner's key (%s)" % (
                [(v, pk == miner_key) for v, pk in cb.outs], want, R.subsidy(plain.height), fees, tag))
        if not plain.ts > head.blk.ts:
            fail("time", "timestamp-not-after-parent", "found block's timestamp %d is not later than its parent's %d (%s)" % (plain.ts, head.blk.ts, tag))
        if [t.id() for t in plain.txs[1:]] != [t.id() for t in pool]:
            fail("pool", "pool-not-included", "found block contains %d ordinary transactions, the pool held %d (%s)" % (len(plain.txs) - 1, len(pool), tag))
        if plain.prev != head.id:
            fail("found", "not-built-on-head", "found block does not extend the head (%s)" % tag)
        # adoption
        served = node.cm.coinstate
        if bid not in served.block_by_hash:
            fail("adopt", "served-state-lacks-found-block", "after the find the chain state served to peers does not contain the found block (%s)" % tag)
        elif served.current_chain_hash != bid:
            fail("adopt", "found-block-not-head", "found block extends the head but is not the served head (%s)" % tag)
        if deep:
            if [x.hash() for x in disk_if.blocks] != [bid] or disk_if.flushes < 1:
                fail("adopt", "found-block-not-in-store", "found block was not handed to save_block + flush_blocks (%s)" % tag)
        else:
            with env.quiet():
                s2 = BS.BlockStore(os.path.join(d, "chain.db"))
            try:
                disk = {x.hash(): x.serialize() for x in s2.read_blocks_from_disk()}
            finally:
                s2.close()
            if disk.get(bid) != plain.raw():
                from vf.props.c08 import faulty_model
                model = faulty_model([led.nodes[i].blk for i in led.order] + [plain])
                if disk.get(bid) == model.get(bid) and disk.get(bid) is not None:
                    info["c08_f1_seen"] = 1        # a pooled transaction's id is already stored with a block of another fork (root cause C08-F1)
                    fail("known", F3, "the found block contains a pending transaction that is already stored with a block of a competing branch; the store returns it with that block only, so the found block is not stored faithfully (%s)" % tag)
                else:
                    fail("adopt", "found-block-not-in-store", "the reopened store does not hold the found block byte-identically (%s)" % tag)
        net.drain(None, only=[node])
        for k, w in enumerate(peers):
            w.collect()
            n = sum(1 for (h, m) in w.received[marks[k]:] if isinstance(m, M.DataMessage) and m.data_type == M.DATA_BLOCK and h.in_response_to == 0 and m.data.hash() == bid)
            if n != 1:
                fail("adopt", "found-block-not-broadcast-exactly-once", "peer %d received %d unsolicited block messages carrying the found block (%s)" % (k, n, tag))
        if net.escaped:
            fail("escape", "exception-escaped-handler", net.escaped[0][1])
        if case.get("next_request") and not fails:
            # the miner goes on: the next candidate must be assembled on the found block with the mined transactions gone
            try:
                with env.quiet():
                    mw.handle_request_scrypt_input_message(0, 12345)
                mt2, (summary2, height2) = mw.send_queues[0].items[-1]
                del mw.send_queues[0].items[:]
                if summary2.previous_block_hash != bid or height2 != plain.height + 1:
                    fail("next", "next-candidate-not-on-found-block", "after a find the next candidate is built on height %d, not on the found block (%s)" % (height2 - 1, tag))
                if node.cm.transaction_pool:
                    fail("next", "mined-transactions-still-pending", "after a find %d mined transaction(s) are still pending (%s)" % (len(node.cm.transaction_pool), tag))
            except Exception as e:
                fail("next", "next-candidate-raised:" + exc_sig(e), "assembling the next candidate after a find raised %r (%s)" % (e, tag))
        if case.get("second_find") and not fails and not deep:
            second_find(case, mw, node, peers, net, led, plain, t_found, d, fail, info, pending1)
        return fails, info
    finally:
        BS.DefaultBlockStore.instance = old_default
        os.chdir(cwd)
        try:
            store.close()
        except Exception:
            pass


def stage_net_flush_race(store, run, led, head, b, info):
    """schedule injection: the networking thread is inside a flush (for a block X it has just received) when the miner hands
    its found block to the store; that flush ends -- and cleans up -- between the miner's save and the miner's own flush.
    Correct code makes the miner wait for the lock or keeps its block.  Waiting is bounded (0.3 s), both orders are legal."""
    import threading
    x = run.world.build_block({"label": "netx", "parent": next(l for l, blk in run.world.blocks.items() if blk.id() == head.id),
                               "miner": 7, "dt": run.world.safe_dt(head, 77), "txs": []})
    if x is None:
        return None
    in_write, resume = threading.Event(), threading.Event()
    orig_write, orig_add = store.write_blocks_to_disk, store.add_block_to_buffer
    me = threading.current_thread()

    def write(blocks):
        r = orig_write(blocks)
        if threading.current_thread() is not me and not in_write.is_set():
            in_write.set()
            resume.wait(0.3)
        return r

    def add(block):
        r = orig_add(block)
        if threading.current_thread() is me:
            resume.set()
            t.join(0.5)
        return r

    def net_thread():
        orig_add(b.to_sk_block(x))
        store.flush_blocks_to_disk()

    store.write_blocks_to_disk, store.add_block_to_buffer = write, add
    t = threading.Thread(target=net_thread)
    t.daemon = True
    t.start()
    in_write.wait(0.3)
    info["net_flush_races"] = info.get("net_flush_races", 0) + 1

    def finish():
        resume.set()
        t.join(5)
        store.write_blocks_to_disk, store.add_block_to_buffer = orig_write, orig_add
        store.flush_blocks_to_disk()
    return finish


def second_find(case, mw, node, peers, net, led, first, t_found, d, fail, info, pending1=None):
    """a second miner process reports a winning candidate that was assembled on the SAME parent as the block just found:
    a found block that does not extend the head must still become part of the served state, be stored and broadcast"""
    from vf import simnet, build as b
    from skepticoin import blockstore as BS, consensus as C
    from skepticoin.networking import messages as M
    from skepticoin.datatypes import Block, BlockHeader
    info["second_find"] = 1
    # the candidate miner 1 holds: same parent, same pool snapshot, assembled before the first find
    parent = led.nodes[first.prev]
    prev_state = node.cm.coinstate
    import skepticoin.networking.manager as MG
    # re-create the pre-find situation for miner 1 only: its mining args are a candidate on the old head
    old_cs = mw.coinstate
    view = type(old_cs)(old_cs.block_by_hash, old_cs.unspent_transaction_outs_by_hash, old_cs.block_by_height_by_hash, old_cs.heads, first.prev)
    from skepticoin.signing import SECP256k1PublicKey
    from vf.keys import KEYS
    found = None
    if pending1 is not None:
        found = (None, None, None, pending1[0], pending1[1])
        info["second_find_through_request_handler"] = 1
    for nonce in ([] if pending1 is not None else range(case["nonce0"] + 100_000, case["nonce0"] + 160_000)):
        summary, height, txs = C.construct_block_pow_evidence_input(view, [b.to_sk_tx(t) for t in first.txs[1:]], SECP256k1PublicKey(KEYS[6].pub), first.ts, b"", nonce & 0xFFFFFFFF)
        sh = C.construct_summary_hash(summary, height)
        ev = C.construct_pow_evidence_after_scrypt(sh, view, summary, height, txs)
        blk = Block(BlockHeader(summary, ev), txs)
        if blk.hash() < blk.target:
            found = (summary, height, txs, sh, blk)
            break
    if found is None:
        raise env.HarnessError("no second block found")
    summary, height, txs, sh, blk = found
    if blk.hash() == first.id():
        return
    if pending1 is None:
        mw.send_queues.append(Q())
        mw.mining_args[1] = (summary, height, txs)
    for w in peers:
        w.collect()
    marks = [len(w.received) for w in peers]
    simnet.CLOCK.now = max(simnet.CLOCK.now, t_found)
    try:
        with env.quiet():
            mw.handle_scrypt_output_message(1, sh)
    except Exception as e:
        fail("found", "second-find-handler-raised:" + exc_sig(e), "reporting a second find on the same parent raised %r" % (e,))
        return
    bid = blk.hash()
    served = node.cm.coinstate
    if bid not in served.block_by_hash:
        fail("adopt", "side-branch-find-not-in-served-state", "a found block that does not extend the head (second miner, same parent) is missing from the chain state served to peers")
    elif served.current_chain_hash != first.id():
        fail("adopt", "head-switched-on-tie", "the second find on the same parent replaced the first one as head")
    if first.id() not in served.block_by_hash:
        fail("adopt", "first-find-lost", "the first found block vanished from the served state when the second find was reported")
    with env.quiet():
        s2 = BS.BlockStore(os.path.join(d, "chain.db"))
    try:
        disk = {x.hash(): x.serialize() for x in s2.read_blocks_from_disk()}
    finally:
        s2.close()
    plain2 = b.from_sk_block(blk)
    if disk.get(bid) != plain2.raw():
        # two miner processes pay the same key with the same reward data: their sibling blocks contain the IDENTICAL reward
        # transaction, which is exactly the situation of the recorded store finding C08-F1 -- recognised through C08's model
        from vf.props.c08 import faulty_model
        model = faulty_model([led.nodes[i].blk for i in led.order] + [first, plain2])
        if disk.get(bid) == model.get(bid):
            info["c08_f1_seen"] = info.get("c08_f1_seen", 0) + 1
            fail("known", F3, "a second mining process reported a winning candidate on the same parent as the block just found: both blocks carry the identical reward transaction, the store keeps it with the first only, and the second found block is not stored faithfully")
        else:
            fail("adopt", "side-branch-find-not-in-store", "the second found block was not written to the block store byte-identically")
    net.drain(None, only=[node])
    for k, w in enumerate(peers):
        w.collect()
        n = sum(1 for (h, m) in w.received[marks[k]:] if isinstance(m, M.DataMessage) and m.data_type == M.DATA_BLOCK and h.in_response_to == 0 and m.data.hash() == bid)
        if n != 1:
            fail("adopt", "side-branch-find-not-broadcast-exactly-once", "peer %d received %d unsolicited block messages carrying the second found block" % (k, n))


def real_miner_sessions(case):
    """The REAL miner loop (mining.run_miner / Miner.__call__, in a thread) against the REAL MinerWatcher.__call__ on a simulated
    node: every block that appears as the node's new head while the miner runs must be valid by the reference, pay exactly
    subsidy + fees to the key the watcher held, and the watcher's message loop must not die."""
    import random
    from vf import simnet, minersession, build as b
    env.import_networking()
    from skepticoin import mining as MI, consensus as C, wallet as W
    fails = []
    info = {}

    def fail(kind, sig, msg):
        if not any(f["sig"] == sig for f in fails):
            fails.append({"kind": kind, "sig": sig, "msg": msg})

    hist = chainexec.gen_case(random.Random(case["hist_seed"]), tuple(case["cfg"]), case["n_blocks"], 0.0, ["C01"], p_tx=0.5, p_fork=0.2)
    hist.pop("horizon", None)
    r = chainexec.Run(hist, ("C12",))
    r.execute()
    led = r.world.uni
    d = env.fresh_subdir("c12rm")
    cwd = os.getcwd()
    os.chdir(d)
    try:
        simnet.install()
        net = simnet.Net()
        head = led.nodes[r.cs.current_chain_hash]
        simnet.CLOCK.now = head.blk.ts + 40
        node = net.add("miner", "10.0.0.1", r.cs, 5, disk=simnet.RecDisk())
        node.cm.started_at = -10 ** 9
        wk = [KEYS[i] for i in (2, 3, 4, 5, 6, 7)]
        W.save_wallet(W.Wallet({k.pub: k.priv for k in wk}, [k.pub for k in wk], {}))
        s_ = minersession.Session(MI, C, simnet, node, case["finds"], case["nonce0"], real_miner=True).run()
        info["sessions"] = 1
        info["finds"] = s_.found
        if s_.stalled:
            info["stalled"] = 1
            return fails, info
        if "Error in MinerWatcher message loop" in s_.output:
            txt = s_.output[s_.output.index("Error in MinerWatcher message loop"):]
            txt = txt.split("Restoring unused public key")[0].strip().splitlines()
            last = txt[-1].strip() if txt else "?"
            fail("found", "miner-loop-died:" + last.split(":")[0].split(".")[-1], "with the real miner loop (Miner.__call__) feeding it, the watcher's message loop ended with an error after %d find(s): %s" % (s_.found, last[:300]))
            return fails, info
        if s_.raised is not None:
            fail("found", "miner-session-raised:" + type(s_.raised).__name__, "MinerWatcher.__call__ ended with %r" % (s_.raised,))
            return fails, info
        if s_.found < case["finds"]:
            info["no_find"] = 1
            return fails, info
        parent = head
        for j, bid in enumerate(s_.heads[1:]):
            plain = b.from_sk_block(node.cm.coinstate.block_by_hash[bid])
            v = led.validate(plain, plain.ts + 60)
            if v:
                fail("found", "found-block-invalid:" + v[0], "a block found by the real miner loop violates %s" % v)
                break
            cb = plain.txs[0]
            want = R.subsidy(plain.height)
            if plain.prev != parent.id:
                fail("found", "not-built-on-head", "the found block does not extend the head")
            if len(cb.outs) != 1 or cb.outs[0][0] != want or (j < len(s_.handed) and cb.outs[0][1] != s_.handed[j]):
                fail("reward", "reward-not-exact", "reward outputs %s, expected one output of %d to the key the watcher held" % ([v_ for v_, _ in cb.outs], want))
            if not plain.ts > parent.blk.ts:
                fail("time", "timestamp-not-after-parent", "found block's timestamp is not later than its parent's")
            led.add(plain)
            parent = led.nodes[bid]
        return fails, info
    finally:
        os.chdir(cwd)


def shards(tier):
    return [{"kind": "mine", "i": i} for i in range(15)] + [{"kind": "real_miner"}]


def run_real_miner(res, tier, seed):
    n = 8 if tier == "quick" else 150

    @hypothesis.seed(env.subseed(seed, ID, "real_miner"))
    @settings(max_examples=n, deadline=None, database=None, suppress_health_check=list(hypothesis.HealthCheck), phases=[hypothesis.Phase.generate])
    @given(st.integers(0, 10 ** 6), st.sampled_from(chainexec.CFGS[:3]), st.integers(3, 8), st.integers(1, 2), st.integers(0, 1 << 30))
    def prop(hist_seed, cfg, n_blocks, finds, nonce0):
        case = {"real_miner": True, "hist_seed": hist_seed, "cfg": list(cfg), "n_blocks": n_blocks, "finds": finds, "nonce0": nonce0}
        fails, info = real_miner_sessions(case)
        res.evaluations += 1
        res.count("real_miner_sessions")
        res.count("real_miner_finds", info.get("finds", 0))
        res.count("real_miner_stalled(inconclusive)", info.get("stalled", 0))
        if info.get("finds"):
            res.nontrivial(env.digest(case))
        for f in fails:
            res.fail(f["kind"], f["sig"], f["msg"], case)

    prop()
    res.sample({"real_miner_loop": "mining.run_miner in a thread + MinerWatcher.__call__ + simulated node; 1-2 finds per session"})
    return res


def run(shard, tier, seed):
    res = Result()
    if shard["kind"] == "real_miner":
        return run_real_miner(res, tier, seed)
    n = 15 if tier == "quick" else 450

    @hypothesis.seed(env.subseed(seed, ID, shard["i"]))
    @settings(max_examples=n, deadline=None, database=None, suppress_health_check=list(hypothesis.HealthCheck), phases=[hypothesis.Phase.generate])
    @given(st.randoms(use_true_random=True), st.sampled_from(chainexec.CFGS[:3] + chainexec.CFGS[:3] + chainexec.CFGS[3:]), st.integers(3, 9), st.booleans(),
           st.sampled_from([-30, -30, -29, -1, 0, 1, 2, 31, 120, 10_000]), st.sampled_from([0, 0, 1, 2, 29, 30, 31, 600]), st.integers(0, 6), st.integers(0, 4))
    def prop(rnd, cfg, nb, deep, asm_off, found_delay, n_pool, fee_sel):
        deepd = chainexec.gen_deep(rnd) if (deep and cfg[0] == R.REAL_PERIOD) else None
        case = chainexec.gen_case(rnd, cfg if deepd is None else chainexec.CFGS[3], nb, 0.0, ["C01"], deep=deepd, p_tx=0.6, p_fork=0.3)
        case.update(asm_off=asm_off, found_delay=found_delay, n_pool=n_pool, fee_sel=fee_sel, nonce0=rnd.randrange(1 << 32),
                    second_find=rnd.random() < 0.5, tick_every=rnd.choice([0, 0, 1, 3, 40]), dead_peer=rnd.random() < 0.3,
                    next_request=rnd.random() < 0.6, net_flush_race=rnd.random() < 0.3, net_flush_fails=rnd.random() < 0.25, shared_host=rnd.random() < 0.3,
                    reorg_after_pool=rnd.random() < 0.3)
        try:
            fails, info = execute(case)
        except env.HarnessError as e:
            res.error(str(e))
            return
        res.evaluations += 1
        res.count("finds", info["found"])
        res.count("cases_without_a_find_in_60000_attempts", info.get("unminable", 0))
        res.count("finds_with_pool", 1 if info["pool"] else 0)
        res.count("finds_after_reorganisation_with_pending_transactions", info.get("reorg_after_pool", 0))
        res.count("finds_at_retarget_boundary", 1 if info["boundary"] else 0)
        res.count("finds_assembly_clock_not_after_head", 1 if info["early_clock"] else 0)
        res.count("deep_states", 1 if deepd else 0)
        res.count("second_finds_on_same_parent", info.get("second_find", 0))
        res.count("c08_f1_seen(not judged)", info.get("c08_f1_seen", 0))
        res.count("net_flush_races", info.get("net_flush_races", 0))
        res.count("net_flush_failures_before_the_find", info.get("net_flush_failures", 0))
        if info["found"] and (info["pool"] or info["early_clock"] or info["boundary"]):
            res.nontrivial(env.digest(case))
        if res.evaluations in (1, 9):
            res.sample({k: case[k] for k in ("cfg", "asm_off", "found_delay", "n_pool", "fee_sel")} | {"n_ops": len(case["ops"]), "deep": bool(deepd)})
        for f in fails:
            res.fail(f["kind"], f["sig"], f["msg"], case)

    prop()
    return res


def replay(case):
    if case.get("real_miner"):
        return real_miner_sessions(case)[0]
    return execute(case)[0]
