"""C19 -- peer book stays consistent; reconnects with bounded back-off; self-connections; atomic, bounded peer file."""
import json
import os

import hypothesis
from hypothesis import settings, strategies as st
from hypothesis.stateful import RuleBasedStateMachine, initialize, rule, run_state_machine_as_test

from vf import crash, env
from vf.result import Result, exc_sig
from vf.shrink import shrink_list

ID = "C19"
LEVEL = "exploration"
RULE = ("Hypothesis rule-based state machine over one simulated node and a harness-played fabric with 3 hosts x 2 ports (one of "
        "them the node's own address; a 130-address pool in the thorough tier): manager steps with drawn clock increments "
        "(0..4000 s), outgoing connects established, refused, or failing at once (address unreachable), remote close before/after the greeting, greetings with drawn "
        "nonce (own nonce = self-connection) and listening port, peer announcements over the address set (known, connected, own, "
        "non-IPv4-mapped entries; in particular announcements of addresses that are currently waiting for reconnection), incoming "
        "connections that reuse a (host, port) key. Real DiskInterface.write_peers in a "
        "private cwd, with the crash injector on drawn saves. Oracle after EVERY event: connected and waiting sets disjoint, "
        "nothing escaped; every start_outgoing_connection is checked against a per-address reference (last attempt, k = "
        "consecutive attempts ended without greeting): t-last >= min(10*2^k, 1800), none once k exceeds the maximum, none to "
        "an own address, self-connection dropped; peers.json valid JSON, <= 100 rows, just-greeted peer first, order of the rest "
        "preserved, no duplicate key; a crash at any point leaves the old or the new file. Plus is_time_to_connect on the full grid "
        "k in 0..2890 x dt around each threshold with the REAL constants (exhaustive). non-trivial = machine with >= 1 failed "
        "attempt followed by a retry, >= 1 greeting and >= 1 duplicate key; grid points are distinct by construction.")
ASSUMPTIONS = ["simnet transport model; the harness plays the remote endpoints", "MAX_CONNECTION_ATTEMPTS patched to 3 in two thirds of the machines (the real constant is covered by the grid)"]
MIN_NONTRIVIAL = {"quick": 20_000, "thorough": 26_000}


def shards(tier):
    return [{"kind": "sm", "i": i} for i in range(13)] + [{"kind": "grid"}, {"kind": "file"}, {"kind": "long"}]


def grid(res):
    env.import_networking()
    from skepticoin.networking import remote_peer as RP, params as P
    consts = {"TIME_TO_SECOND_CONNECTION_ATTEMPT": 10, "MAX_TIME_BETWEEN_CONNECTION_ATTEMPTS": 1800, "MAX_CONNECTION_ATTEMPTS": 2880}
    for n, v in consts.items():
        if getattr(P, n) != v or getattr(RP, n) != v:
            res.fail("constants", "backoff-constant:" + n, "%s = %r, the property states %r" % (n, getattr(RP, n), v), {"grid": n})
    for k in range(0, 2891):
        thr = min(10 * 2 ** k, 1800)
        for d in sorted({0, 1, thr - 1, thr, thr + 1, 9, 10, 11, 1799, 1800, 1801, 10 ** 7}):
            p = RP.DisconnectedRemotePeer("1.2.3.4", 2412, RP.OUTGOING, 1000, ban_score=k)
            try:
                got = p.is_time_to_connect(1000 + d)
            except Exception as e:
                # the network manager calls this for every waiting peer in every step, outside any per-connection handler:
                # an exception here ends the node's network loop
                res.fail("backoff", "is_time_to_connect-raised:" + type(e).__name__, "is_time_to_connect(k=%d, dt=%d) raised %r (the manager step that asks this for every waiting peer would end the network loop)" % (k, d, e), {"grid": [k, d]})
                continue
            want = (k <= 2880) and d >= thr
            res.evaluations += 1
            res.disjoint += 1
            if got != want:
                res.fail("backoff", "is_time_to_connect-grid", "is_time_to_connect(k=%d, dt=%d) = %s, expected %s" % (k, d, got, want), {"grid": [k, d]})
        p = RP.DisconnectedRemotePeer("1.2.3.4", 2412, RP.OUTGOING, None, ban_score=k)
        if p.is_time_to_connect(5) != (k <= 2880):
            res.fail("backoff", "is_time_to_connect-never-tried", "never-tried peer with k=%d" % k, {"grid": [k, None]})
    res.exhaustive = True
    res.sample({"grid": "k in 0..2890 x dt in {0,1,thr-1,thr,thr+1,9,10,11,1799,1800,1801,1e7}", "constants": consts})


def long_dead_peer(mode, rounds=None, bystander=False, announce=False):
    """One outgoing address that never greets -- it refuses every connection / answers every connection with garbage / hangs
    up at once -- for the node's WHOLE retry schedule with the real constants (2,881 attempts; the k-th wait is
    min(10 s * 2^k, 30 min), about two months of virtual time).  The manager is stepped one second before and exactly at the
    earliest permitted time of every attempt.  -> dict(attempts=[times], early=[...], escaped=[...], alive=bool, ...)"""
    from vf import simnet
    env.import_networking()
    from skepticoin.networking import remote_peer as RP, messages as M
    from skepticoin.coinstate import CoinState
    simnet.install()
    simnet.CLOCK.now = 1_700_000_000
    net = simnet.Net()
    node = net.add("n", "10.0.0.1", CoinState.zero(), 4242, disk=simnet.RecDisk())
    node.cm.started_at = -10 ** 9
    by = None
    if bystander:
        by = simnet.Wire(net, node, host="10.0.0.20")
        by.greet(nonce=77)
    node.nm.disconnected_peers.update(RP.load_peers_from_list([("10.0.0.77", 2412, RP.OUTGOING)]))
    attempts = []
    orig = node.lp.start_outgoing_connection

    def spy(peer):
        if peer.host == "10.0.0.77":                       # (a greeted bystander's own listening address is dialled too)
            attempts.append(simnet.CLOCK.now)
        return orig(peer)

    node.lp.start_outgoing_connection = spy
    limit = RP.MAX_CONNECTION_ATTEMPTS
    rounds = rounds or (limit + 6)
    early, late, unserved = [], [], 0

    def settle():
        for s in list(net.pending_connects):
            net.pending_connects.remove(s)
            if mode == "refuse" or tuple(s.remote_addr)[0] != "10.0.0.77":
                s.refused = True
            else:
                r = simnet.FakeSock(node=simnet._Outside(net, "10.0.0.77"))
                r.peer, s.peer = s, r
                r.established = s.established = True
                if mode == "garbage":
                    s.inflight += b"\x16\x03\x01\x02\x00 not this protocol"
                else:
                    r.close()
        net.drain(None, only=[node], connects=False)

    for k in range(rounds):
        need = min(10 * 2 ** min(k, 40), 1800)
        n0 = len(attempts)
        if attempts:
            simnet.CLOCK.now = attempts[-1] + need - 1
            net.step(node)
            settle()
            if len(attempts) > n0:
                early.append((k, need))
            simnet.CLOCK.now = attempts[-1] + need
        net.step(node)
        settle()
        if len(attempts) == n0 and k <= limit:
            late.append(k)
        if net.escaped:
            break
        if by is not None and k % 200 == 0:
            m0 = len(by.received)
            by.send(M.GetPeersMessage())
            by.deliver()
            if not any(isinstance(m, M.PeersMessage) for _h, m in by.received[m0:]):
                unserved += 1
    # after the node has given the address up, a well-behaved peer ANNOUNCES it again and a week passes: still no further attempt
    after = None
    if announce and not net.escaped:
        from ipaddress import IPv6Address
        n_before = len(attempts)
        ann = simnet.Wire(net, node, host="10.0.0.30")
        ann.greet(nonce=88)
        ann.send(M.PeersMessage([M.Peer(0, IPv6Address("::FFFF:10.0.0.77"), 2412)]))
        ann.deliver()
        for _ in range(30):
            simnet.CLOCK.now += 6 * 3600
            net.step(node)
            settle()
        after = len(attempts) - n_before
    return {"attempts": attempts, "early": early, "late": late, "escaped": list(net.escaped), "limit": limit, "unserved": unserved, "after_announcement": after,
            "ban_score": max([p.ban_score for p in node.nm.disconnected_peers.values()] + [0])}


def run_long(res, tier, seed):
    for mode in (["refuse"] if tier == "quick" else ["refuse", "garbage", "close"]):
        out = long_dead_peer(mode, announce=True)
        res.evaluations += len(out["attempts"])
        res.disjoint += len(out["attempts"])
        res.count("long_schedule_attempts:" + mode, len(out["attempts"]))
        case = {"long": mode}
        if out["escaped"]:
            res.fail("escape", "exception-escaped:" + out["escaped"][0][1].split("(")[0], "a peer that never greets (%s), attempt #%d of its retry schedule: an exception left the manager step / event handling and ends the network loop: %s" % (
                mode, len(out["attempts"]), out["escaped"][0][1]), case)
            continue
        if out["early"]:
            k, need = out["early"][0]
            res.fail("backoff", "retry-too-early", "a peer that never greets (%s): attempt #%d came before %d s had passed since the previous one" % (mode, k + 1, need), case)
        if len(out["attempts"]) > out["limit"] + 1:
            res.fail("backoff", "retry-beyond-give-up", "a peer that never greets (%s) was tried %d times; the configured number of failures is %d" % (mode, len(out["attempts"]), out["limit"]), case)
        if out.get("after_announcement"):
            res.fail("backoff", "retry-beyond-give-up:after-announcement", "a peer that never greets (%s) was given up after %d attempts; after another peer announced the same address again it was dialled %d more times" % (
                mode, out["limit"] + 1, out["after_announcement"]), case)
        if len(out["attempts"]) - (out.get("after_announcement") or 0) < out["limit"] + 1:
            res.fail("backoff", "gave-up-early-or-late-retry", "a peer that never greets (%s) was tried only %d times when stepped at the earliest permitted moments (configured failures: %d; first missing attempt #%s)" % (
                mode, len(out["attempts"]), out["limit"], out["late"][:1]), case)
    res.sample({"long_schedule": "one address that never greets, stepped through the complete retry schedule with the real constants"})


class Conn:
    def __init__(self, node_sock, remote, direction, addr):
        self.node_sock, self.remote, self.direction, self.addr = node_sock, remote, direction, addr
        self.greeted = False
        self.alive = True
        self.msg_id = 0


class Exec:
    OWN = ("10.0.0.1", 2412)

    def __init__(self, init):
        from vf import simnet
        env.import_networking()
        from skepticoin.networking import remote_peer as RP, messages as M, disk_interface as DI
        from skepticoin.coinstate import CoinState
        self.simnet, self.RP, self.M, self.DI = simnet, RP, M, DI
        self.init = init
        self.dir = env.fresh_subdir("c19")
        self.cwd = os.getcwd()
        os.chdir(self.dir)
        self.real_max = RP.MAX_CONNECTION_ATTEMPTS
        self.maxk = init["max_attempts"] or self.real_max
        RP.MAX_CONNECTION_ATTEMPTS = self.maxk
        big = init.get("big", False)
        self.addrs = [("10.0.0.1", 2412), ("10.0.0.1", 2413), ("10.0.0.2", 2412), ("10.0.0.2", 2413), ("10.0.0.3", 2412), ("10.0.0.3", 2413)]
        if big:
            self.addrs += [("10.1.%d.%d" % (i // 50, i % 50 + 1), 2412) for i in range(124)]
        simnet.install()
        simnet.CLOCK.now = 1_700_000_000

        class Disk(DI.DiskInterface):      # the REAL write_peers; everything else recorded
            def save_transaction_for_debugging(s, t):
                pass

            def save_block(s, b):
                pass

            def flush_blocks(s):
                pass

            def load_peers(s):
                return {}

        self.disk = Disk()
        self.net = simnet.Net()
        # the node's own nonce is a random 32-bit number in production: the whole range is drawn
        self.node = self.net.add("n", self.OWN[0], CoinState.zero(), init.get("nonce", 4242), disk=self.disk, port=self.OWN[1])
        nm = self.node.nm
        first = [self.addrs[i % len(self.addrs)] for i in init["initial"]]
        self.file_rows = None          # model of peers.json (list of [host, port, dir]) or None when absent
        if init.get("from_file") and first:
            # the way a node starts in production: the peer book comes out of peers.json through the real load_peers (every field a
            # freshly decoded object, not the constants of the source)
            uniq = []
            for a in first:
                if a not in uniq:
                    uniq.append(a)
            with open("peers.json", "w") as f:
                json.dump([[h, p, "OUTGOING", "2021-01-01T00:00:00Z"] for (h, p) in uniq], f, indent=4)
            with env.quiet():
                nm.disconnected_peers = DI.DiskInterface.load_peers(self.disk)
            self.file_rows = [[h, p, "OUTGOING"] for (h, p) in uniq]
        else:
            nm.disconnected_peers = RP.load_peers_from_list([(h, p, RP.OUTGOING) for (h, p) in first])
        self.conns = []
        self.fails = []
        # reference back-off book: addr -> [last_attempt, k]
        self.book = {a: [None, 0] for a in [self.addrs[i % len(self.addrs)] for i in init["initial"]]}
        self.own = set()
        self.attempts = []
        self.flags = {"retries_after_failure": 0, "greetings": 0, "duplicate_keys": 0, "self_connections": 0, "attempts": 0, "give_ups_observed": 0, "crash_points": 0, "file_writes": 0}
        lp = self.node.lp
        orig = lp.start_outgoing_connection
        ex = self

        def spy(peer):
            ex.on_attempt(peer)
            return orig(peer)

        lp.start_outgoing_connection = spy
        self.crash_next = False
        orig_wp = self.disk.write_peers

        def wp(peer):
            ex.on_write_peers(peer, orig_wp)

        self.disk.write_peers = wp

    def close(self):
        self.RP.MAX_CONNECTION_ATTEMPTS = self.real_max
        os.chdir(self.cwd)

    def fail(self, kind, sig, msg):
        if not any(f["sig"] == sig for f in self.fails):
            self.fails.append({"kind": kind, "sig": sig, "msg": msg})

    # ------------------------------------------------------------ observers
    def on_attempt(self, peer):
        t = self.simnet.CLOCK.now
        a = (peer.host, peer.port)
        self.flags["attempts"] += 1
        st_ = self.book.setdefault(a, [None, 0])
        last, k = st_
        if a in self.own:
            self.fail("self", "retry-to-own-address", "outgoing attempt to %s:%s after it was recognised as the node's own address" % a)
        if k > self.maxk:
            self.fail("backoff", "retry-beyond-give-up", "attempt to %s:%s after %d consecutive failures (maximum %d)" % (a[0], a[1], k, self.maxk))
        if last is not None:
            need = min(10 * 2 ** k, 1800)
            if t - last < need:
                self.fail("backoff", "retry-too-early", "attempt to %s:%s %d s after the previous one; k=%d requires >= %d s" % (a[0], a[1], t - last, k, need))
            if k > 0:
                self.flags["retries_after_failure"] += 1
        st_[0] = t
        self.attempts.append((t, a))

    def on_write_peers(self, peer, orig):
        old_rows = self.file_rows
        key = [peer.host, peer.port, peer.direction]
        new_rows = ([key] + [r for r in (old_rows or []) if r != key])[:100]
        self.flags["file_writes"] += 1
        if self.crash_next:
            self.crash_next = False
            snapshot = {n: open(n, "rb").read() for n in os.listdir(".") if os.path.isfile(n)}

            def inspect(kstep):
                self.flags["crash_points"] += 1
                rows = self.read_file()
                if rows == "missing":
                    if old_rows is not None:
                        self.fail("crash", "crash-loses-peer-file", "crash at step %d of write_peers: peers.json is gone" % kstep)
                elif rows == "corrupt":
                    self.fail("crash", "crash-leaves-corrupt-peer-file", "crash at step %d of write_peers: peers.json is not valid JSON" % kstep)
                elif rows != new_rows and rows != old_rows:
                    self.fail("crash", "crash-leaves-mixed-peer-file", "crash at step %d of write_peers: peers.json is neither the old nor the new list" % kstep)
                elif rows != "missing":
                    # ... and the NEXT START (load_peers) finds that list -- it neither falls back to the download nor damages the file
                    net_calls = []
                    real_net = self.DI.load_peers_from_network
                    self.DI.load_peers_from_network = lambda: net_calls.append(1) or []
                    try:
                        with env.quiet():
                            loaded = self.DI.DiskInterface().load_peers()
                        got = {(h, p, d) for (h, p, d) in loaded.keys()}
                    except Exception as e:
                        got = None
                        self.fail("crash", "restart-after-crash-cannot-load-peers", "crash at step %d of write_peers, then the next start: load_peers raised %s" % (kstep, type(e).__name__))
                    finally:
                        self.DI.load_peers_from_network = real_net
                    rows2 = self.read_file()
                    self.flags["restarts_after_crash"] = self.flags.get("restarts_after_crash", 0) + 1
                    if got is not None and (net_calls or got not in ({tuple(r) for r in new_rows}, {tuple(r) for r in (old_rows or [])})):
                        self.fail("crash", "restart-after-crash-loses-peer-list", "crash at step %d of write_peers, then the next start: load_peers %s" % (
                            kstep, "found no usable peers.json and fell back to downloading a list" if net_calls else "returned neither the old nor the new list"))
                    if rows2 != rows:
                        self.fail("crash", "restart-after-crash-changes-peer-file", "crash at step %d of write_peers, then the next start changed peers.json (now %s)" % (kstep, rows2 if isinstance(rows2, str) else "%d rows" % len(rows2)))
                for n in os.listdir("."):
                    if os.path.isfile(n):
                        os.remove(n)
                for n, data in snapshot.items():
                    open(n, "wb").write(data)

            crash.crash_points(self.DI, lambda: orig(peer), inspect)
            crash.crash_points(self.DI, lambda: orig(peer), inspect, buffered=True)
        with env.quiet():
            orig(peer)
        rows = self.read_file()
        if rows in ("missing", "corrupt"):
            self.fail("file", "peer-file-" + rows, "peers.json is %s after write_peers" % rows)
            return
        if len(rows) > 100:
            self.fail("file", "peer-file-too-long", "peers.json holds %d entries" % len(rows))
        if not rows or rows[0] != key:
            self.fail("file", "peer-file-most-recent-not-first", "the peer that just greeted is not the first entry")
        if len({tuple(r) for r in rows}) != len(rows):
            self.fail("file", "peer-file-duplicate-key", "peers.json lists an address twice")
        if rows != new_rows:
            self.fail("file", "peer-file-order", "peers.json differs from [new] + previous entries in their order (truncated to 100)")
        self.file_rows = rows

    def read_file(self):
        if not os.path.exists("peers.json"):
            return "missing"
        try:
            d = json.loads(open("peers.json").read())
            return [r[0:3] for r in d]
        except Exception:
            return "corrupt"

    # ------------------------------------------------------------ events
    def pump(self):
        self.net.drain(None, only=[self.node], connects=False)     # the harness decides what happens to pending connects
        self.sync_conns()

    def sync_conns(self):
        for c in self.conns:
            if c.alive and (c.node_sock.closed or c.node_sock not in self.node.lp.selector.map):
                c.alive = False
                if c.direction == "out":
                    if not c.greeted:
                        self.book[c.addr][1] += 1
                        if self.book[c.addr][1] > self.maxk:
                            self.flags["give_ups_observed"] += 1

    def do_hello(self, c, own, my_port, salt=0):
        """a greeting arrives on connection c (own = it carries the node's own nonce: the far end is the node itself)"""
        from ipaddress import IPv6Address
        M, RP = self.M, self.RP
        nonce = self.node.lp.nonce if own else 1000 + salt
        msg = M.HelloMessage([M.SupportedVersion(0)], IPv6Address("::FFFF:10.0.0.1"), 2412, IPv6Address("0::0"), my_port, nonce, b"h")
        self.send(c, msg)
        self.pump()
        c.greeted = True
        self.flags["greetings"] += 1
        if c.direction == "out":
            self.book[c.addr][1] = 0
            if own:
                self.own.add(c.addr)
                self.flags["self_connections"] += 1
                if c.node_sock in self.node.lp.selector.map and not c.node_sock.closed:
                    self.fail("self", "self-connection-not-dropped", "a connection whose greeting carried the node's own nonce was kept")
        else:
            a = (c.addr[0], my_port)
            key = (a[0], a[1], RP.OUTGOING)
            if a not in self.book and key in self.node.nm.disconnected_peers:
                self.book[a] = [None, 0]

    def invariant(self, where):
        nm = self.node.nm
        both = set(nm.connected_peers) & set(nm.disconnected_peers)
        if both:
            self.fail("book", "address-both-connected-and-waiting", "%s: %s is recorded as connected and as waiting for reconnection" % (where, sorted(both)[0]))
        if self.net.escaped:
            self.fail("escape", "exception-escaped:" + self.net.escaped[0][1].split("(")[0], "%s: an exception left the node's event handling / manager step: %s" % (where, self.net.escaped[0][1]))
        # the code's own ban score must agree with the reference k for waiting outgoing peers
        for (h, p, d), peer in nm.disconnected_peers.items():
            if d == self.RP.OUTGOING and (h, p) in self.book and peer.ban_score != self.book[(h, p)][1]:
                self.fail("book", "failure-count-differs", "%s: %s:%s has failure count %d, reference k=%d" % (where, h, p, peer.ban_score, self.book[(h, p)][1]))
            if d == self.RP.OUTGOING and (h, p) in self.book and peer.last_connection_attempt != self.book[(h, p)][0]:
                self.fail("book", "previous-attempt-forgotten", "%s: the record of the previous attempt to %s:%s changed from %r to %r without an attempt (the back-off interval is measured from it)" % (
                    where, h, p, self.book[(h, p)][0], peer.last_connection_attempt))

    def step(self, op):
        simnet, M, RP = self.simnet, self.M, self.RP
        k = op[0]
        if k == "step":
            simnet.CLOCK.now += op[1]
            self.net.step(self.node)
            # new outgoing sockets appear as pending connects
            for s in self.net.pending_connects + self.net.failed_connects:
                if not any(c.node_sock is s for c in self.conns):
                    self.conns.append(Conn(s, None, "out", tuple(s.remote_addr)))
        elif k in ("establish", "refuse"):
            pend = [c for c in self.conns if c.alive and c.direction == "out" and c.remote is None and c.node_sock in self.net.pending_connects]
            if not pend:
                return
            c = pend[op[1] % len(pend)]
            self.net.pending_connects.remove(c.node_sock)
            if k == "refuse" or c.addr == self.OWN and False:
                c.node_sock.refused = True
            else:
                r = simnet.FakeSock(node=simnet._Outside(self.net, c.addr[0]))
                r.peer = c.node_sock
                c.node_sock.peer = r
                r.established = c.node_sock.established = True
                c.remote = r
        elif k == "self_loop":
            # a REAL connection of the node to itself: the pending dial to its own address is established, which creates the
            # other end as an incoming connection of the same node; both ends then receive a greeting carrying the node's own
            # nonce and listening port -- in either order
            pend = [c for c in self.conns if c.alive and c.direction == "out" and c.remote is None and c.node_sock in self.net.pending_connects and c.addr == self.OWN]
            if not pend:
                return
            c = pend[0]
            self.net.pending_connects.remove(c.node_sock)
            r = simnet.FakeSock(node=simnet._Outside(self.net, c.addr[0]))
            r.peer = c.node_sock
            c.node_sock.peer = r
            r.established = c.node_sock.established = True
            c.remote = r
            port = 50000 + op[2] % 2
            r2 = simnet.FakeSock(node=simnet._Outside(self.net, self.OWN[0]))
            c2 = simnet.FakeSock(self.node)
            c2.peer, r2.peer = r2, c2
            c2.established = r2.established = True
            c2.peername = (self.OWN[0], port)
            self.node.listen.backlog.append(c2)
            self.net.run(self.node, self.node.lp.handle_incoming_connection, self.node.listen)
            ci = Conn(c2, r2, "in", (self.OWN[0], port))
            self.conns.append(ci)
            self.flags["self_loops"] = self.flags.get("self_loops", 0) + 1
            for x in ([c, ci] if op[1] % 2 == 0 else [ci, c]):
                if x.alive and not x.node_sock.closed:
                    self.do_hello(x, True, self.OWN[1])
        elif k == "incoming":
            host = ["10.0.0.2", "10.0.0.3", "10.0.0.1"][op[1] % 3]
            port = 50000 + op[2] % 2                       # small ephemeral range -> duplicate (host, port, INCOMING) keys
            key = (host, port, RP.INCOMING)
            if key in self.node.nm.connected_peers:
                self.flags["duplicate_keys"] += 1
            r = simnet.FakeSock(node=simnet._Outside(self.net, host))
            c = simnet.FakeSock(self.node)
            c.peer, r.peer = r, c
            c.established = r.established = True
            c.peername = (host, port)
            self.node.listen.backlog.append(c)
            self.net.run(self.node, self.node.lp.handle_incoming_connection, self.node.listen)
            self.conns.append(Conn(c, r, "in", (host, port)))
        elif k in ("hello", "peers", "close", "garbage"):
            live = [c for c in self.conns if c.alive and c.remote is not None]
            if not live:
                return
            c = live[op[1] % len(live)]
            if k == "close":
                c.remote.close()
            elif k == "garbage":
                c.node_sock.inflight += b"XXXXYYYY"
            elif k == "hello":
                self.do_hello(c, op[2] % 4 == 0, [2412, 2413, 0, 2412][op[3] % 4], op[2])
            elif k == "peers":
                from ipaddress import IPv6Address
                if not c.greeted:
                    return
                peers = []
                for j in op[2]:
                    h, p = self.addrs[j % len(self.addrs)]
                    ip = IPv6Address("::FFFF:%s" % h) if j % 7 != 6 else IPv6Address("2001:db8::%d" % (j % 9 + 1))
                    peers.append(M.Peer(0, ip, p))
                    a = (h, p)
                    key = (h, p, RP.OUTGOING)
                    if j % 7 != 6 and a not in self.book and key not in self.node.nm.connected_peers and key not in self.node.nm.disconnected_peers:
                        self.book[a] = [None, 0]
                self.send(c, M.PeersMessage(peers))
        elif k == "peers_waiting":
            # a greeted peer announces an address that is currently WAITING for reconnection (a known address)
            from ipaddress import IPv6Address
            live = [c for c in self.conns if c.alive and c.remote is not None and c.greeted]
            waiting = sorted((h, p) for (h, p, d) in self.node.nm.disconnected_peers if d == RP.OUTGOING)
            if not live or not waiting:
                return
            c = live[op[1] % len(live)]
            h, p = waiting[op[2] % len(waiting)]
            self.send(c, M.PeersMessage([M.Peer(0, IPv6Address("::FFFF:%s" % h), p)]))
            self.flags["announcements_of_waiting_addresses"] = self.flags.get("announcements_of_waiting_addresses", 0) + 1
        elif k == "unreachable":
            a = self.addrs[op[1] % min(len(self.addrs), 6)]
            if op[2]:
                self.net.unreachable.add(a)            # connects to it now fail immediately (no route)
            else:
                self.net.unreachable.discard(a)
        elif k == "crash_next_save":
            self.crash_next = True
        self.pump()
        self.invariant("after %s" % k)

    def send(self, c, msg):
        import struct
        c.msg_id += 1
        hdr = self.M.MessageHeader(self.simnet.CLOCK.now & 0xFFFFFFFF, c.msg_id, 0, 1)
        data = hdr.serialize() + msg.serialize()
        c.node_sock.inflight += b"MAJI" + struct.pack(">I", len(data)) + data


class Machine(RuleBasedStateMachine):
    res = None
    found = None
    tier = "quick"

    def __init__(self):
        super().__init__()
        self.ex = None
        self.ops = []
        self.dead = False

    @initialize(initial=st.lists(st.integers(0, 5), min_size=1, max_size=4, unique=True), maxk=st.sampled_from([3, 3, None]), big=st.booleans(),
                nonce=st.one_of(st.integers(0, (1 << 32) - 1), st.sampled_from([0, 1, (1 << 31) - 1, 1 << 31, (1 << 32) - 1])))
    def setup(self, initial, maxk, big, nonce):
        big = big and Machine.tier == "thorough"
        self.init = {"initial": list(range(130)) if big else initial, "max_attempts": maxk, "big": big, "nonce": nonce, "from_file": nonce % 2 == 0}
        self.ex = Exec(self.init)
        if self.init["from_file"]:
            Machine.res.count("machines_started_from_a_peer_file")

    def do(self, op):
        if self.dead or self.ex is None:
            return
        self.ops.append(op)
        Machine.res.evaluations += 1
        try:
            self.ex.step(op)
        except env.HarnessError:
            raise
        except Exception as e:
            if exc_sig(e).endswith("@None"):          # raised by the harness itself (no frame of the code under test)
                Machine.res.error("executor raised %r" % (e,))
                self.dead = True
            else:
                self.ex.fail("exception", "exc:" + exc_sig(e), "op %s raised %r" % (op[0], e))
        if self.ex.fails:
            self.dead = True

    @rule(dt=st.sampled_from([0, 1, 5, 9, 10, 11, 19, 20, 21, 39, 40, 41, 79, 80, 81, 100, 500, 1799, 1800, 1801, 4000]))
    def step(self, dt):
        self.do(["step", dt])

    @rule(dt=st.integers(0, 200))
    def step_small(self, dt):
        self.do(["step", dt])

    @rule(i=st.integers(0, 20))
    def establish(self, i):
        self.do(["establish", i])

    @rule(i=st.integers(0, 20))
    def refuse(self, i):
        self.do(["refuse", i])

    @rule(h=st.integers(0, 2), p=st.integers(0, 1))
    def incoming(self, h, p):
        self.do(["incoming", h, p])

    @rule(order=st.integers(0, 1), p=st.integers(0, 1))
    def self_loop(self, order, p):
        self.do(["self_loop", order, p])

    @rule(i=st.integers(0, 20), n=st.integers(0, 7), p=st.integers(0, 3))
    def hello(self, i, n, p):
        self.do(["hello", i, n, p])

    @rule(i=st.integers(0, 20), lst=st.lists(st.integers(0, 200), max_size=5))
    def peers(self, i, lst):
        self.do(["peers", i, lst])

    @rule(i=st.integers(0, 20), j=st.integers(0, 50))
    def announce_waiting(self, i, j):
        self.do(["peers_waiting", i, j])

    @rule(i=st.integers(0, 5), on=st.booleans())
    def unreachable(self, i, on):
        self.do(["unreachable", i, on])

    @rule(i=st.integers(0, 20))
    def close(self, i):
        self.do(["close", i])

    @rule(i=st.integers(0, 20))
    def garbage(self, i):
        self.do(["garbage", i])

    @rule()
    def crash_next_save(self):
        self.do(["crash_next_save"])

    def teardown(self):
        if self.ex is None:
            return
        self.ex.close()
        res = Machine.res
        case = {"init": self.init, "ops": self.ops}
        res.count("machines")
        for k, v in self.ex.flags.items():
            res.count(k, v)
        f = self.ex.flags
        if f["retries_after_failure"] and f["greetings"] and f["duplicate_keys"]:
            res.nontrivial(env.digest(case))
        if res.counters["machines"] in (2, 9):
            res.sample({"init": self.init if not self.init["big"] else "130 initial peers", "ops": self.ops[:25]})
        for fl in self.ex.fails:
            if fl["sig"] not in Machine.found:
                Machine.found[fl["sig"]] = (fl, case)


def execute(case):
    ex = Exec(case["init"])
    try:
        for op in case["ops"]:
            ex.step(op)
            if ex.fails:
                break
    finally:
        ex.close()
    return ex.fails


def file_check(res, seed):
    """the peer file beyond 100 entries: 130 distinct greeted peers + repeats, crash injection on some saves"""
    import random
    rnd = random.Random(seed)
    ex = Exec({"initial": [0], "max_attempts": 3, "big": True})
    try:
        order = list(range(len(ex.addrs))) + [rnd.randrange(len(ex.addrs)) for _ in range(40)]
        for n, j in enumerate(order):
            h, p = ex.addrs[j]
            if n in (3, 60, 120, 150):
                ex.crash_next = True
            ex.disk.write_peers(ex.RP.RemotePeer(h, p, ex.RP.OUTGOING, None, 0))
            res.evaluations += 1
            if ex.fails:
                break
        # a peers.json that is already over the limit when the node starts (written by an older version, merged by hand,
        # or the downloaded start-up list): the next saves must bring it back to <= 100 rows, newest first
        if not ex.fails:
            for n_pre in (101, 100 + rnd.randrange(2, 60), 260):
                pre = [["10.9.%d.%d" % (q // 200, q % 200), 2412, ex.RP.OUTGOING, "2021-01-01T00:00:00Z"] for q in range(n_pre)]
                with open("peers.json", "w") as f:
                    json.dump(pre, f, indent=4)
                ex.file_rows = [r[0:3] for r in pre]
                for j in (rnd.randrange(len(ex.addrs)), rnd.randrange(len(ex.addrs))):
                    h, p = ex.addrs[j]
                    ex.disk.write_peers(ex.RP.RemotePeer(h, p, ex.RP.OUTGOING, None, 0))
                    res.evaluations += 1
                res.count("file_check_preexisting_oversize_files")
                if ex.fails:
                    break
        res.count("file_check_writes", len(order))
        res.count("crash_points", ex.flags["crash_points"])
        res.disjoint += ex.flags["crash_points"]
        res.sample({"peer_file": "130 distinct peers + 40 repeats written through the real write_peers", "rows_at_end": len(ex.file_rows or [])})
        return ex.fails
    finally:
        ex.close()


def run(shard, tier, seed):
    res = Result()
    if shard["kind"] == "grid":
        grid(res)
        return res
    if shard["kind"] == "long":
        run_long(res, tier, seed)
        return res
    if shard["kind"] == "file":
        for f in file_check(res, seed):
            res.fail(f["kind"], f["sig"], f["msg"], {"file_check": seed})
        return res
    Machine.res = res
    Machine.found = {}
    Machine.tier = tier
    n = 30 if tier == "quick" else 700
    steps = 60 if tier == "quick" else 100
    run_state_machine_as_test(
        hypothesis.seed(env.subseed(seed, ID, shard["i"]))(Machine),
        settings=settings(max_examples=n, stateful_step_count=steps, deadline=None, database=None,
                          suppress_health_check=list(hypothesis.HealthCheck), phases=[hypothesis.Phase.generate]))
    for sig, (f, case) in Machine.found.items():
        def still(ops):
            try:
                return any(x["sig"] == sig for x in execute({"init": case["init"], "ops": ops}))
            except Exception:
                return False
        ops = shrink_list(case["ops"], still, 20)
        res.fail(f["kind"], sig, f["msg"], {"init": case["init"], "ops": ops})
    return res


def replay(case):
    if "grid" in case:
        res = Result()
        grid(res)
        return res.failures
    if "file_check" in case:
        return file_check(Result(), case["file_check"])
    if "long" in case:
        res = Result()
        run_long(res, "thorough" if case["long"] != "refuse" else "quick", 1)
        return res.failures
    return execute(case)
