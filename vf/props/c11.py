"""C11 -- stream framing is independent of transport fragmentation (exhaustive 2/3-way cuts + drawn many-way cuts)."""
import hashlib
import io
import itertools
import struct

import hypothesis
from hypothesis import given, settings, strategies as st

from vf import env, refmodel as R
from vf.result import Result, exc_sig

ID = "C11"
LEVEL = "exploration"
RULE = ("streams = concatenations of 1-6 framed messages of all seven types (payloads from C07's strategies) and corrupted "
        "variants (wrong magic at message k, length field > 32 MiB / == 32 MiB at message k, length one more / one less than the "
        "payload, trailing partial frame, messages exactly AT the limit -- the real 32 MiB one and small patched limits); fragmentations: ALL 2- and 3-way cuts of short streams (exhaustive) and Hypothesis-"
        "drawn many-way cuts (chunks 1..1024) of long streams; the same through a simulated node's full event path "
        "(the node reads with its own recv size; drawn arrival sizes; greeting followed by 1-4, 25-70 or 2600-4200 messages). Oracle: the sequence of (header bytes, message bytes) handed on is identical for "
        "every fragmentation and equals the reference framer's parse; for a corrupted stream every message before the "
        "corruption is delivered exactly once, none after, and the refusal is raised by exactly the chunk that completes the "
        "offending 4-byte field (connection dropped there on the node path). non-trivial = fragmentation of a stream with >= 2 "
        "messages with >= 1 cut strictly inside a magic, a length field or a payload; distinct = (stream digest, cuts).")
ASSUMPTIONS = ["whether a payload decodes is decided by the code's own message codecs in isolation (framing is what is under test)",
               "node path: simnet models the transport"]
MIN_NONTRIVIAL = {"quick": 100_000, "thorough": 1_000_000}


def mods():
    env.import_networking()
    from skepticoin.networking import remote_peer as RP, messages as M
    return RP, M


class StubPeer:
    def __init__(self):
        self.got = []

    def handle_message_received(self, header, message):
        self.got.append((header.serialize(), message.serialize()))


def expected(M, stream, limit=None):
    """reference outcome: ([(hdr bytes, msg bytes)...], trigger) with trigger = None | (kind, offset of the byte whose
    arrival makes the receiver refuse)"""
    payloads, refusal = R.parse_stream(stream, limit)
    out = []
    pos = 0
    for p in payloads:
        end = pos + 8 + len(p) - 1
        try:
            f = io.BytesIO(p)
            h = M.MessageHeader.stream_deserialize(f)
            m = M.Message.stream_deserialize(f)
            out.append((h.serialize(), m.serialize()))
        except Exception:
            return out, ("decode", max(end, pos + 7))
        pos = end + 1
    return out, refusal


def feed(RP, stream, cuts):
    """-> (delivered, index of the chunk that raised or None, exception)"""
    stub = StubPeer()
    rcv = RP.MessageReceiver(stub)
    prev = 0
    for ci, c in enumerate(list(cuts) + [len(stream)]):
        chunk = stream[prev:c]
        prev = c
        try:
            rcv.receive(chunk)
        except Exception as e:
            return stub.got, ci, e
    return stub.got, None, None


def check(res, RP, stream, cuts, exp, trig, case_fn):
    got, ci, err = feed(RP, stream, cuts)
    bounds = list(cuts) + [len(stream)]
    if trig is None:
        if ci is not None:
            res.fail("framing", "well-formed-stream-refused", "cuts %s: chunk %d raised %r on a well-formed stream" % (list(cuts)[:6], ci, err), case_fn())
            return
        if got != exp:
            res.fail("framing", "messages-differ-from-reference", "cuts %s: %d messages delivered, reference %d (or content differs)" % (list(cuts)[:6], len(got), len(exp)), case_fn())
        return
    want_ci = next(i for i, b in enumerate(bounds) if b > trig[1])
    if ci is None:
        res.fail("framing", "corruption-not-refused:" + trig[0], "cuts %s: stream with a %s problem at offset %d was not refused" % (list(cuts)[:6], trig[0], trig[1]), case_fn())
    elif ci != want_ci:
        res.fail("framing", "refused-at-wrong-chunk:" + trig[0], "cuts %s: refusal raised by chunk %d, expected chunk %d (offset %d)" % (list(cuts)[:6], ci, want_ci, trig[1]), case_fn())
    if got != exp:
        res.fail("framing", "messages-before-corruption-differ", "cuts %s: %d messages delivered before the refusal, reference %d" % (list(cuts)[:6], len(got), len(exp)), case_fn())


def interesting(stream_bounds, cuts):
    """a cut strictly inside a magic, a length field or a payload (i.e. not on a frame boundary)"""
    return any(c not in stream_bounds for c in cuts)


def small_messages(M):
    from ipaddress import IPv6Address
    h = M.MessageHeader(1, 2, 0, 3)
    return [
        h.serialize() + M.GetPeersMessage().serialize(),
        h.serialize() + M.GetDataMessage(M.DATA_BLOCK, b"\x07" * 32).serialize(),
        h.serialize() + M.InventoryMessage([]).serialize(),
        h.serialize() + M.GetBlocksMessage([b"\x01" * 32]).serialize(),
        h.serialize() + M.PeersMessage([M.Peer(5, IPv6Address("::ffff:1.2.3.4"), 2412)]).serialize(),
        h.serialize() + M.InventoryMessage([M.InventoryItem(M.DATA_BLOCK, b"\x09" * 32)]).serialize(),
        # well-formed messages the node does not serve: the handler refuses them (the connection is dropped at that message)
        h.serialize() + M.GetDataMessage(M.DATA_TRANSACTION, b"\x08" * 32).serialize(),
    ]
UNSERVED = 6        # index of the first message in small_messages() whose handling ends the connection


def corruptions(frames, k, kind):
    """stream with the k-th frame corrupted"""
    fs = list(frames)
    f = fs[k]
    n = struct.unpack(">I", f[4:8])[0]
    if kind == "magic":
        fs[k] = b"MAJJ" + f[4:]
    elif kind == "magic_first_byte":
        fs[k] = b"XAJI" + f[4:]
    elif kind == "len_over":
        fs[k] = f[:4] + struct.pack(">I", R.MAX_MESSAGE_SIZE + 1) + f[8:]
    elif kind == "len_limit":
        fs[k] = f[:4] + struct.pack(">I", R.MAX_MESSAGE_SIZE) + f[8:]
    elif kind == "len_max":
        fs[k] = f[:4] + b"\xff\xff\xff\xff" + f[8:]
    elif kind.startswith("len_first_octet_"):
        # a length whose first octet is one of the octets of the magic (always over the limit): whatever strips or searches the
        # magic must not touch the octets after it
        fs[k] = f[:4] + kind[-1].encode() + b"\x00\x00\x00" + f[8:]
    elif kind == "magic_doubled":
        fs[k] = b"MAJI" + f                         # the second magic is read as a length (0x4D414A49: over the limit)
    elif kind == "len+1":
        fs[k] = f[:4] + struct.pack(">I", n + 1) + f[8:]
    elif kind == "len-1":
        fs[k] = f[:4] + struct.pack(">I", n - 1) + f[8:]
    elif kind == "partial_tail":
        fs = fs[:k] + [f[:len(f) // 2]]
    return b"".join(fs)


KINDS = ["none", "magic", "magic_first_byte", "len_over", "len_limit", "len_max", "len+1", "len-1", "partial_tail",
         "len_first_octet_M", "len_first_octet_A", "len_first_octet_J", "len_first_octet_I", "magic_doubled"]


def shards(tier):
    n = 14 if tier == "quick" else 60
    return ([{"kind": "exh", "i": i, "n": n} for i in range(n)] + [{"kind": "rand", "i": i} for i in range(2)] + [{"kind": "node", "i": 0}]
            + [{"kind": "limit", "i": 0}])


def run_limit(res, tier, seed):
    """messages AT the size limit: (1) the real 32 MiB limit with a maximal (padded) message followed by more frames under
    several fragmentations incl. a 1024-byte read that straddles its end; (2) the limit patched to a small value and ALL 1- and
    2-cut fragmentations of streams whose middle message is exactly at the limit / one above it"""
    RP, M = mods()
    sm = small_messages(M)
    real = RP.MAX_MESSAGE_SIZE
    if real != R.MAX_MESSAGE_SIZE:
        res.fail("limit", "size-limit-constant", "MAX_MESSAGE_SIZE = %r, the documented limit is %d" % (real, R.MAX_MESSAGE_SIZE), {"limit_const": True})
    big = sm[0] + b"\x00" * (real - len(sm[0]))                     # decoders ignore trailing bytes: a maximal well-formed message
    frames = [R.frame(sm[1]), R.frame(big), R.frame(sm[2]), R.frame(sm[3])]
    stream = b"".join(frames)
    exp, trig = expected(M, stream)
    e1 = len(frames[0]) + len(frames[1])
    frags = {"one_piece": (), "frame_by_frame": (len(frames[0]), e1, e1 + len(frames[2])),
             "read_straddles_end_of_maximal_message": (len(frames[0]), e1 - 500, e1 + 524),
             "cut_inside_next_magic": (e1 + 2,), "tail_first": (e1 - 1, e1 + 1)}
    for name, cuts in frags.items():
        res.evaluations += 1
        res.nontrivial("reallimit:" + name)
        check(res, RP, stream, cuts, exp, trig, lambda: {"limit_case": "real", "fragmentation": name})
    over = R.frame(sm[1]) + b"MAJI" + struct.pack(">I", real + 1)
    exp2, trig2 = expected(M, over)
    check(res, RP, over, (len(over) - 2,), exp2, trig2, lambda: {"limit_case": "real+1"})
    # (2) small patched limit, exhaustive cuts
    for L in (len(sm[1]) + 3, len(sm[5]) + 1):
        RP.MAX_MESSAGE_SIZE = L
        try:
            for delta in (0, 1):
                pad = sm[1] + b"\x00" * (L + delta - len(sm[1]))
                frames = [R.frame(sm[0]), R.frame(pad), R.frame(sm[2])]
                stream = b"".join(frames)
                exp, trig = expected(M, stream, L)
                n = len(stream)
                for c1 in range(1, n):
                    check(res, RP, stream, (c1,), exp, trig, lambda: {"limit_case": "patched", "limit": L, "delta": delta, "cuts": [c1]})
                    for c2 in range(c1 + 1, n, 1 if tier == "thorough" else 3):
                        check(res, RP, stream, (c1, c2), exp, trig, lambda: {"limit_case": "patched", "limit": L, "delta": delta, "cuts": [c1, c2]})
                        res.evaluations += 1
                        res.disjoint += 1
                check(res, RP, stream, (), exp, trig, lambda: {"limit_case": "patched", "limit": L, "delta": delta, "cuts": []})
        finally:
            RP.MAX_MESSAGE_SIZE = real
    res.sample({"limit": "real 32 MiB maximal message under 5 fragmentations; patched small limits with exhaustive cuts, message at limit and limit+1"})


def exh_stream(M, i):
    sm = small_messages(M)
    a, b, c = sm[i % len(sm)], sm[(i // 2 + 1) % len(sm)], sm[(i // 3 + 2) % len(sm)]
    frames = [R.frame(a), R.frame(b)] + ([R.frame(c)] if i % 4 == 3 else [])
    kind = KINDS[i % len(KINDS)]
    k = (i // len(KINDS)) % len(frames)
    return (b"".join(frames) if kind == "none" else corruptions(frames, k, kind)), frames, kind, k


def run_large(res, tier, seed):
    """several LARGE messages (70 kB .. 1 MB: inventories of thousands of items, as a bulk download produces them) on one
    connection, read the way a socket delivers them (1024 octets at a time) and with cuts right after each header: whatever
    buffering the receiver does for big bodies must be reusable for the next one"""
    import random
    RP, M = mods()
    rnd = random.Random(env.subseed(seed, ID, "large"))
    h = M.MessageHeader(1, 2, 0, 3)

    def inv(n, salt):
        return R.frame(h.serialize() + M.InventoryMessage([M.InventoryItem(M.DATA_BLOCK, hashlib.sha256(b"%d.%d" % (salt, i)).digest()) for i in range(n)]).serialize())

    small = R.frame(h.serialize() + M.GetPeersMessage().serialize())
    plans = [[2100, 2100], [2100, 4000, 2050], [30000, 2100], [1950, 2100, 1950, 2100]] if tier == "quick" else \
            [[2100, 2100], [2100, 4000, 2050], [30000, 2100], [1950, 2100, 1950, 2100], [6000] * 5, [2100, 30, 2100], [30000, 30000]]
    for pi, plan in enumerate(plans):
        frames = []
        for j, n in enumerate(plan):
            frames.append(inv(n, pi * 10 + j))
            if rnd.random() < 0.5:
                frames.append(small)
        frames.append(small)
        for kind in ("none", "len_over", "magic"):
            stream = b"".join(frames) if kind == "none" else corruptions(frames, len(frames) - 1, kind)
            exp, trig = expected(M, stream)
            starts = [0] + list(itertools.accumulate(len(f) for f in frames))[:-1]
            cutsets = [tuple(range(1024, len(stream), 1024)),                                     # what recv(1024) gives
                       tuple(sorted({st_ + 8 for st_ in starts if 0 < st_ + 8 < len(stream)})),     # right after every header
                       tuple(sorted({st_ + d for st_ in starts for d in (4, 8, 9) if 0 < st_ + d < len(stream)}))]
            for _ in range(3):
                cutsets.append(tuple(sorted({st_ + rnd.choice([1, 7, 8, 8, 53, 61, 1024, 70000]) for st_ in starts if 0 < st_ + 8 < len(stream)} & set(range(1, len(stream))))))
            for cuts in cutsets:
                check(res, RP, stream, cuts, exp, trig, lambda: {"large": pi, "kind": kind, "cuts": list(cuts)[:40]})
                res.evaluations += 1
                res.nontrivial("large%d.%s.%d" % (pi, kind, len(cuts)))
    res.count("large_message_streams", len(plans) * 3)


def run(shard, tier, seed):
    RP, M = mods()
    res = Result()
    if shard["kind"] == "exh":
        stream, frames, kind, k = exh_stream(M, shard["i"])
        exp, trig = expected(M, stream)
        bounds = set(itertools.accumulate(len(f) for f in frames))
        L = len(stream)
        case = lambda cuts: (lambda: {"stream": stream.hex(), "cuts": list(cuts)})
        n_int = 0
        check(res, RP, stream, (), exp, trig, case(()))
        for c1 in range(1, L):
            check(res, RP, stream, (c1,), exp, trig, case((c1,)))
            res.evaluations += 1
            n_int += c1 not in bounds
        step = 1 if (tier == "thorough" or L <= 170) else 2
        for c1 in range(1, L, 1):
            for c2 in range(c1 + 1, L, step):
                check(res, RP, stream, (c1, c2), exp, trig, case((c1, c2)))
                res.evaluations += 1
                n_int += (c1 not in bounds) or (c2 not in bounds)
        res.disjoint = n_int
        res.count("exhaustive_streams")
        res.count("stream_kind:" + kind)
        res.exhaustive = (step == 1)
        res.sample({"stream_bytes": L, "frames": len(frames), "corruption": kind, "at_frame": k, "cuts": "all 1- and 2-cut fragmentations" + ("" if step == 1 else " (second cut at every 2nd offset in the quick tier)")})
        return res
    if shard["kind"] == "limit":
        run_limit(res, tier, seed)
        run_large(res, tier, seed)
        return res
    if shard["kind"] == "rand":
        from vf.props import c07
        n = 300 if tier == "quick" else 6000

        @hypothesis.seed(env.subseed(seed, ID, "rand", shard["i"]))
        @settings(max_examples=n, deadline=None, database=None, suppress_health_check=list(hypothesis.HealthCheck), phases=[hypothesis.Phase.generate])
        @given(st.lists(st.tuples(c07.message_s(), st.builds(M.MessageHeader, c07.u32, c07.u32, c07.u32, c07.u64)), min_size=1, max_size=6),
               st.sampled_from(KINDS), st.integers(0, 5), st.randoms(use_true_random=True))
        def prop(msgs, kind, k, rnd):
            frames = [R.frame(h.serialize() + m.serialize()) for m, h in msgs]
            stream = b"".join(frames) if kind == "none" else corruptions(frames, k % len(frames), kind)
            exp, trig = expected(M, stream)
            bounds = set(itertools.accumulate(len(f) for f in frames))
            for _ in range(6):
                cuts, pos = [], 0
                mode = rnd.randrange(3)
                while True:
                    pos += rnd.choice([1, 2, 3, 4, 5, 7, 8, 9]) if mode == 0 else (rnd.randint(1, 1024) if mode == 1 else rnd.choice([1, 4, 8, 45, 1024]))
                    if pos >= len(stream):
                        break
                    cuts.append(pos)
                check(res, RP, stream, tuple(cuts), exp, trig, lambda: {"stream": stream.hex(), "cuts": cuts})
                res.evaluations += 1
                if len(frames) >= 2 and interesting(bounds, cuts):
                    res.nontrivial(env.digest([stream.hex()[:200], len(stream), cuts[:50]]))
            res.count("rand_stream_kind:" + kind)

        prop()
        res.sample({"messages": "1-6 of all seven types", "cuts": "6 drawn many-way fragmentations per stream (chunks 1..1024)"})
        return res
    return run_node(res, tier, seed)


def run_node(res, tier, seed):
    """the same through a simulated node's full event path"""
    from vf import simnet
    from skepticoin.coinstate import CoinState
    RP, M = mods()
    simnet.install()
    n = 150 if tier == "quick" else 3000
    log = []
    orig = RP.ConnectedRemotePeer.handle_message_received

    def spy(self, header, message):
        log.append((type(message).__name__, header.serialize(), message.serialize()))
        return orig(self, header, message)

    RP.ConnectedRemotePeer.handle_message_received = spy
    try:
        @hypothesis.seed(env.subseed(seed, ID, "node"))
        @settings(max_examples=n, deadline=None, database=None, suppress_health_check=list(hypothesis.HealthCheck), phases=[hypothesis.Phase.generate])
        @given(st.lists(st.integers(0, 5), min_size=1, max_size=4), st.sampled_from(KINDS), st.integers(0, 4), st.randoms(use_true_random=True),
               st.sampled_from(["few", "few", "few", "kilobytes", "kilobytes", "burst"]))
        def prop(idx, kind, k, rnd, size):
            sm = small_messages(M)
            if size == "kilobytes":          # the greeting is followed directly by more than one read's worth of messages
                idx = [rnd.randrange(6) for _ in range(rnd.randrange(25, 70))]
                k = rnd.randrange(len(idx))
            elif size == "burst":            # hundreds of tiny messages are in the socket when the node gets to read
                idx = [rnd.choice([0, 2, 2, 4]) for _ in range(rnd.randrange(2600, 4200))]     # (deeper than any recursion limit in use)
                k = len(idx) - 1 - rnd.randrange(50)
                if rnd.random() < 0.5:
                    kind = "none"
            res.count("node_stream_size:" + size)
            unserved_at = None
            if size != "burst" and rnd.random() < 0.3:
                # a well-formed request the node does not serve sits in the middle of the stream: everything up to and including
                # it is handled exactly once, then the connection is dropped -- under every fragmentation
                unserved_at = rnd.randrange(len(idx))
                idx = list(idx)
                idx[unserved_at] = UNSERVED
                res.count("node_streams_with_an_unserved_request")
            outcomes = []
            for trial in range(3):
                net = simnet.Net()
                node = net.add("n", "10.0.0.1", CoinState.zero(), 1)
                w = simnet.Wire(net, node)
                frames = [R.frame(M.MessageHeader(1, 1, 0, 1).serialize() + w.hello().serialize())] + [R.frame(sm[i]) for i in idx]
                stream = b"".join(frames) if kind == "none" else corruptions(frames, 1 + k % (len(frames) - 1), kind)
                exp, trig = expected(M, stream)
                if unserved_at is not None and len(exp) > unserved_at + 1:
                    exp, trig = exp[:unserved_at + 2], ("unserved", unserved_at + 1)       # greeting + messages up to the unserved one
                del log[:]
                w.send_raw(stream)
                r = None if trial == 0 else rnd
                cnt = net.drain(r, only=[node])
                res.evaluations += 1
                got = [(h, m) for (_n, h, m) in log]
                outcomes.append((got, w.connected))
                if net.escaped:
                    res.fail("escape", "exception-escaped-handler", "exception escaped the event handler: %s" % net.escaped[0][1], {"node_stream": stream.hex()[:4000], "node_stream_bytes": len(stream)})
                if got != exp:
                    res.fail("framing", "node-path-messages-differ", "node path: %d messages handled, reference %d (kind %s)" % (len(got), len(exp), kind), {"node_stream": stream.hex()[:4000], "node_stream_bytes": len(stream)})
                if (trig is not None) == w.connected:
                    res.fail("framing", "node-path-connection-state", "node path: stream kind %s, refusal expected=%s but connection open=%s" % (kind, trig is not None, w.connected), {"node_stream": stream.hex()[:4000], "node_stream_bytes": len(stream)})
                res.nontrivial(env.digest([stream.hex(), trial, cnt]))
            if any(o != outcomes[0] for o in outcomes):
                res.fail("framing", "node-path-fragmentation-dependent", "node path: outcome differs between fragmentations", {"node_stream": "see seed"})
            res.count("node_stream_kind:" + kind)

        prop()
    finally:
        RP.ConnectedRemotePeer.handle_message_received = orig
    res.sample({"node_path": "greeting + 1-4 / 25-70 / 2600-4200 small messages, 3 fragmentations each (everything in the socket at once + 2 drawn arrival schedules); the node reads with its own recv size"})
    return res


def replay(case):
    RP, M = mods()
    res = Result()
    if "limit_case" in case or "limit_const" in case:
        run_limit(res, "quick", 1)
    elif "large" in case:
        run_large(res, "quick", int(case.get("seed", 1)))
    elif "stream" in case:
        stream = bytes.fromhex(case["stream"])
        exp, trig = expected(M, stream)
        check(res, RP, stream, tuple(case["cuts"]), exp, trig, lambda: case)
    else:
        run_node(res, "quick", 1)
    return res.failures
