"""C06 -- tamper evidence: every single-bit flip and every truncation of a valid block's encoding is undecodable or
rejected by full validation against the same chain (exhaustive per block)."""
import hypothesis
from hypothesis import given, settings, strategies as st

from vf import chainexec, env, refmodel as R
from vf.result import Result

ID = "C06"
LEVEL = "fault_enumeration"
RULE = ("valid blocks taken from Hypothesis-drawn forked chains with 0-3 spends per block (about half of them from chains "
        "whose target was driven to saturation by an easy retarget, so that the id<target test cannot mask a missing "
        "commitment); for EACH block ALL 8*len single-bit flips and ALL proper prefixes of its canonical encoding are "
        "enumerated (each truncation is decoded right after a decode of the complete block, as a node would see them). Oracle "
        "per altered string: Block.deserialize raises, or add_block of the decoded block raises both on the chain state that "
        "holds the original and on the state the original was added to, with the same clock; an accepted one is classified 'another acceptable block' / 'same id, "
        "different content'. Every altered string is non-trivial; distinct by construction = (block, bit index | cut) with "
        "blocks made unique per shard/history through their reward data.")
ASSUMPTIONS = ["test configuration (sha256 stand-in for scrypt, checkpoints off, short retarget periods)",
               "single-bit flips and truncations only (the property's quantifier)"]
MIN_NONTRIVIAL = {"quick": 100_000, "thorough": 2_000_000}


def shards(tier):
    return [{"kind": "flip", "i": i} for i in range(16)]


def offer(states, d, now):
    """the decoded block is offered to the chain state that already holds the original AND to the state the original was
    added to; -> True if either accepts it"""
    for cs in states:
        try:
            cs.add_block(d, now)
            return True
        except Exception:
            pass
    return False


def tamper_block(run, blk, now, res, case_ref, label=None):
    """enumerate every flip / cut of blk.raw(); returns number of altered strings tried"""
    Block = run.Block
    states = [run.cs] + ([run.before[label]] if label in run.before else [])
    raw = blk.raw()
    oid = blk.id()
    n = 0
    ba = bytearray(raw)
    nbits = len(raw) * 8
    for bit in range(nbits):
        ba[bit >> 3] ^= 1 << (bit & 7)
        alt = bytes(ba)
        ba[bit >> 3] ^= 1 << (bit & 7)
        n += 1
        try:
            d = Block.deserialize(alt)
        except Exception:
            res.count("flip_undecodable")
            continue
        if not offer(states, d, now):
            res.count("flip_rejected")
            continue
        kind = "same id, different content" if d.hash() == oid else "another acceptable block"
        field = locate(blk, bit >> 3)
        res.fail("tamper_accepted", "flip-accepted:" + field, "bit %d (byte %d, %s) flipped: decoded and ACCEPTED (%s)" % (bit, bit >> 3, field, kind),
                 dict(case_ref, block=oid.hex(), bit=bit))
    for cut in range(len(raw)):
        n += 1
        try:
            if Block.deserialize(raw).hash() != oid:        # a node decodes the complete block, then a truncated copy arrives
                raise env.HarnessError("the untouched encoding decodes to another id")
        except env.HarnessError:
            raise
        except Exception as e:
            raise env.HarnessError("the untouched encoding does not decode: %r" % e)
        try:
            d = Block.deserialize(raw[:cut])
        except Exception:
            res.count("cut_undecodable")
            continue
        if not offer(states, d, now):
            res.count("cut_rejected")
            continue
        res.fail("tamper_accepted", "truncation-accepted", "prefix of %d/%d bytes decoded and ACCEPTED" % (cut, len(raw)),
                 dict(case_ref, block=oid.hex(), cut=cut))
    return n


def locate(blk, byte):
    """name of the field an offset falls in (for bucketing)"""
    hl = len(R.vlq(blk.height))
    bounds = [(1, "version"), (1 + hl, "height"), (33 + hl, "parent"), (65 + hl, "merkle"), (69 + hl, "time"),
              (101 + hl, "target"), (105 + hl, "nonce"), (137 + hl, "ev.summary_hash"), (169 + hl, "ev.chain_sample"),
              (201 + hl, "ev.block_hash")]
    for end, name in bounds:
        if byte < end:
            return name
    return "transactions"


def run(shard, tier, seed):
    res = Result()
    n_hist = 6 if tier == "quick" else 80
    per_hist = 3

    @hypothesis.seed(env.subseed(seed, ID, shard["i"]))
    @settings(max_examples=n_hist, deadline=None, database=None, suppress_health_check=list(hypothesis.HealthCheck),
              phases=[hypothesis.Phase.generate])
    @given(st.randoms(use_true_random=True), st.sampled_from(chainexec.CFGS[:3]), st.integers(6, 10), st.booleans())
    def prop(rnd, cfg, nb, saturate):
        res.count("histories")
        pre = "s%dh%d_%d_" % (shard["i"], res.counters["histories"], seed)
        long_ = shard["i"] == 15 and res.counters["histories"] % 2 == 1
        if long_:
            # a long history with blocks that arrive on parents 30 and more below the head: a stale block is judged like any other
            case = chainexec.gen_case(rnd, cfg, 38 + nb, 0.0, ["C01"], prefix=pre, p_tx=0.5, p_fork=0.1, p_deep_fork=0.3, deep_min=30)
            res.count("histories_with_blocks_30_below_the_head")
        else:
            case = chainexec.gen_case(rnd, cfg, nb, 0.0, ["C01"], prefix=pre, p_tx=0.85, zero_rewards=True, p_unusual=0.35,
                                      dts=[1_000_000, 1_000_000, 10_000] if saturate else None)
        r = chainexec.Run(case, ("C06",))
        r.execute()
        if r.degenerate():
            res.error(r.harness[0])
            return
        led = r.world.uni
        cands = [o for o in case["ops"] if o["label"] in r.world.blocks]
        cands.sort(key=lambda o: (-len(r.world.blocks[o["label"]].txs), -int.from_bytes(r.world.blocks[o["label"]].target, "big")))
        picked = cands[:1] + rnd.sample(cands[1:], min(len(cands) - 1, per_hist - 1))
        if long_:
            hs, best, deep = {"g": 0}, 0, []
            for o in case["ops"]:
                if "label" not in o or o.get("parent") not in hs:
                    continue
                hs[o["label"]] = hs[o["parent"]] + 1
                if best - hs[o["parent"]] >= 30 and o in cands:
                    deep.append(o)
                best = max(best, hs[o["label"]])
            picked = [o for o in deep if o not in picked][:3] + picked[:1]
            res.count("blocks_tampered_30_below_the_head", len(picked) - 1)
        # a block that consists of a reward without outputs ends in a zero length octet: always included when there is one
        bare = [o for o in cands if len(r.world.blocks[o["label"]].txs) == 1 and not r.world.blocks[o["label"]].txs[0].outs and o not in picked]
        if bare:
            picked.append(bare[0])
            res.count("blocks_reward_without_outputs")
        for o in picked:
            blk = r.world.blocks[o["label"]]
            sat = int.from_bytes(blk.target, "big") >= R.TWO256 - 1
            res.count("blocks")
            res.count("blocks_saturated_target" if sat else "blocks_unsaturated_target")
            res.count("blocks_with_spends" if len(blk.txs) > 1 else "blocks_reward_only")
            k = tamper_block(r, blk, blk.ts + o.get("now_off", 0), res, {"cfg": case["cfg"], "ops": case["ops"], "label": o["label"]}, label=o["label"])
            res.evaluations += k
            res.disjoint += k
            if res.counters["blocks"] <= 2:
                res.sample({"block": blk.id().hex(), "bytes": len(blk.raw()), "transactions": len(blk.txs),
                            "saturated_target": sat, "altered_strings": k})

    prop()
    res.exhaustive = True
    res.extra["exhaustive_note"] = "exhaustive per block (all bit flips, all prefixes); the set of blocks is sampled"
    return res


def replay(case):
    res = Result()
    r = chainexec.Run({"cfg": case["cfg"], "ops": case["ops"]}, ("C06",))
    r.execute()
    blk = r.world.blocks[case["label"]]
    op = next(o for o in case["ops"] if o["label"] == case["label"])
    now = blk.ts + op.get("now_off", 0)
    raw = blk.raw()
    if "bit" in case:
        ba = bytearray(raw)
        ba[case["bit"] >> 3] ^= 1 << (case["bit"] & 7)
        alt = bytes(ba)
    else:
        alt = raw[:case["cut"]]
    try:
        r.Block.deserialize(raw)
        d = r.Block.deserialize(alt)
    except Exception:
        return []
    if not offer([r.cs] + ([r.before[case["label"]]] if case["label"] in r.before else []), d, now):
        return []
    sig = "flip-accepted:" + locate(blk, case["bit"] >> 3) if "bit" in case else "truncation-accepted"
    return [{"kind": "tamper_accepted", "sig": sig, "msg": "altered encoding accepted"}]
