"""C10 -- synchronisation converges under every schedule; relay terminates (2-3 simulated nodes)."""
import random as _random

import hypothesis
from hypothesis import given, settings, strategies as st

from vf import chainexec, env, refmodel as R
from vf.keys import KEYS
from vf.result import Result, exc_sig

ID = "C10"
LEVEL = "exploration"
RULE = ("a per-shard universe (honestly mined block tree: trunk of 30, a fork 22 deep from height 5 -- beyond the locator's dense "
        "range --, a longer recent fork, a fork of a fork, spends in ~half of the blocks); per case 2-3 nodes each starting from "
        "the ancestor closure of 1-2 drawn tips inserted in a drawn order, a drawn connected dial topology (in a quarter of the "
        "cases a line low--mid--high whose ends cannot reach each other directly), inventory batch size "
        "drawn from {500, 3, 4}, and a Hypothesis-drawn schedule over connection establishment, byte arrival (fragmented), reads, "
        "partial writes and manager steps with drawn clock advances, under five scheduling disciplines (uniform, priority with "
        "change points, run-to-completion, starvation of one source, staged: two nodes synchronise completely before the third "
        "takes part); then a fair suffix (every node stepped, everything drained, "
        "clock +61 s) until nothing changes. Optionally, once all heads are equal, a freshly mined block is announced by one "
        "node and a valid transaction is broadcast by one node under a drawn schedule. Oracle at quiescence: every node's head "
        "height == max initial height; every node stores the complete chain of its head; the transaction is in every pool; per "
        "node, connection and item id at most one unsolicited data message sent in reaction (injections excluded); every drain "
        "quiesces within a cap on protocol messages handled; nothing escapes a handler. non-trivial = case where a node must "
        "download across a fork, or >= 2 inventory batches are needed, or a relay phase ran; distinct = digest of (subsets, "
        "topology, batch, schedule seed).")
ASSUMPTIONS = ["simnet transport model", "test configuration (fast scrypt stand-in, checkpoints off)",
               "'converges' = reaches the expected state within a bounded fair suffix; a state that is stuck for 25 fair rounds is reported, one still progressing at the bound is inconclusive"]
MIN_NONTRIVIAL = {"quick": 100, "thorough": 4000}


class Universe:
    def __init__(self, seed, deep=False):
        from vf import build as b
        from vf.histgen import Gen
        env.use_fast_pow()
        env.set_retarget(None, None)
        self.b = b
        rnd = _random.Random(seed)
        cfg = R.Config()
        self.world = b.World(cfg)
        g0 = self.world.uni.genesis.blk
        gen = Gen(rnd, g0.ts, int.from_bytes(g0.target, "big"), cfg.period, cfg.timespan, p_tx=0.5, dts=[2, 10, 120], p_unusual=0.0)
        self.gen = gen
        self.labels = {}

        def chain(prefix, parent_label, heights):
            prev = parent_label
            for h in heights:
                op, fees = gen.honest_block(parent=gen.L[prev])
                blk = self.world.build_block(op)
                assert blk is not None and not self.world.uni.validate(blk, blk.ts), "universe block invalid"
                gen.commit(op, fees)
                self.world.accept(op["label"], blk)
                self.labels["%s%d" % (prefix, h)] = op["label"]
                prev = op["label"]
            return prev

        self.labels["g"] = "g"
        chain("t", "g", range(1, 31))
        chain("d", self.labels["t5"], range(6, 28))
        chain("r", self.labels["t28"], range(29, 32))
        chain("e", self.labels["d19"], range(20, 25))
        # a branch that contains a block of exactly the maximum size (200,000 bytes): x32
        prev = chain("x", self.labels["t30"], [31])
        op, fees = gen.honest_block(parent=gen.L[prev], n_tx=0)
        op["struct"] = "maxsize"
        blk = self.world.build_block(op)
        assert blk is not None and len(blk.raw()) == R.MAX_BLOCK_SIZE and not self.world.uni.validate(blk, blk.ts), "maximum-size block invalid"
        self.world.accept(op["label"], blk)
        self.labels["x32"] = op["label"]
        self.big = blk.id()
        # its successor is built by hand (the label-level generator does not know the many-output reward of x32)
        nxt = self.world.build_block({"label": "x33", "parent": op["label"], "miner": 1, "dt": 10, "txs": []})
        assert nxt is not None and not self.world.uni.validate(nxt, nxt.ts)
        self.world.accept("x33", nxt)
        self.labels["x33"] = "x33"
        self.tips = ["t30", "t30", "t20", "t12", "d27", "d15", "r31", "r30", "r30", "r29", "e24", "t5", "g", "t3"]
        self.deep = deep
        if deep:
            # two branches that part at t5 and are both more than 100 blocks long (K to height 118, L to height 126): a node on K
            # has to take blocks that attach more than 100 below its head
            gen.opts["p_tx"] = 0.1
            chain("K", self.labels["t5"], range(6, 119))
            chain("L", self.labels["t5"], range(6, 127))
            gen.opts["p_tx"] = 0.5
        # a block q29 (a sibling of t29 and r29) that mines a transaction whose input stays unspent all the way to r31
        self.pool_history = []
        both = sorted((r_, o) for r_, o in self.node("t28").utxo.items() if r_ in self.node("r31").utxo and o[0] >= 2 and any(k.pub == o[1] for k in KEYS))
        if both:
            ref, o = both[0]
            kk = next(k for k in KEYS if k.pub == o[1])
            t = R.RTx([(ref[0], ref[1], ("se",))], [(o[0] - 1, KEYS[5].pub)])
            t.ins = [(ref[0], ref[1], ("sig", kk.sign(R.signing_message(t))))]
            self.world.txs["q29.t"] = t.touch()
            q = self.world.build_block({"label": "q29", "parent": self.labels["t28"], "miner": 6, "dt": 9, "txs": [{"copy": "q29.t"}]})
            if q is not None and not self.world.uni.validate(q, q.ts):
                self.world.accept("q29", q)
                self.labels["q29"] = "q29"
                self.pool_history = [("q29", 1)]
        # a pending payment that only makes sense on the t-branch (t28 - t29 - t30, abandoned for t28 - r29 - r30 - r31): it spends a
        # coin c that is unspent at t30 AND at r31 together with a coin d that was created in t29/t30
        self.pool_stale = None
        t30u, t28u, r31u = self.node("t30").utxo, self.node("t28").utxo, self.node("r31").utxo
        mine = lambda o: o[0] >= 1 and any(k.pub == o[1] for k in KEYS)
        both = [x for x in both if x[0] in t30u]
        only_t = sorted((r_, o) for r_, o in t30u.items() if r_ not in t28u and r_ not in r31u and mine(o))
        if len(both) >= 2 and only_t:
            (rc, oc), (rd, od) = both[1], only_t[0]
            t2 = R.RTx([(rc[0], rc[1], ("se",)), (rd[0], rd[1], ("se",))], [(oc[0] + od[0] - 1, KEYS[6].pub)])
            msg = R.signing_message(t2)
            t2.ins = [(r_[0], r_[1], ("sig", next(k for k in KEYS if k.pub == o_[1]).sign(msg))) for r_, o_ in ((rc, oc), (rd, od))]
            t3 = R.RTx([(rc[0], rc[1], ("se",))], [(oc[0] - 1, KEYS[3].pub)])
            t3.ins = [(rc[0], rc[1], ("sig", next(k for k in KEYS if k.pub == oc[1]).sign(R.signing_message(t3))))]
            self.pool_stale = (t2.touch(), t3.touch())
        self.sk = {}

    def blk(self, name):
        return self.world.blocks[self.labels[name]]

    def node(self, name):
        return self.world.uni.nodes[self.blk(name).id()]

    def closure(self, names):
        ids = []
        seen = set()
        for n in names:
            for bid in self.node(n).chain:
                if bid not in seen:
                    seen.add(bid)
                    ids.append(bid)
        return ids

    def sk_block(self, bid):
        if bid not in self.sk:
            self.sk[bid] = self.b.to_sk_block(self.world.uni.nodes[bid].blk)
        return self.sk[bid]

    def coinstate(self, ids, rnd):
        """insert the ancestor-closed set in a drawn parent-before-child order"""
        from skepticoin.coinstate import CoinState
        led = self.world.uni
        cs = CoinState.zero()
        rest = [i for i in ids if i != led.genesis.id]
        done = {led.genesis.id}
        while rest:
            ready = [i for i in rest if led.nodes[i].blk.prev in done]
            i = ready[rnd.randrange(len(ready))] if rnd.random() < 0.5 else ready[0]
            cs = cs.add_block_no_validation(self.sk_block(i))
            done.add(i)
            rest.remove(i)
        return cs


TOPOS2 = [[(0, 1)], [(1, 0)], [(0, 1), (1, 0)]]
TOPOS3 = [[(0, 1), (1, 2)], [(1, 0), (2, 1)], [(0, 1), (2, 1)], [(1, 0), (1, 2)], [(0, 1), (1, 2), (2, 0)], [(0, 1), (0, 2)], [(1, 0), (2, 0), (1, 2)],
          [(0, 1), (1, 0), (1, 2), (2, 1)]]


class Sim:
    def __init__(self, u, case):
        from vf import simnet
        from skepticoin.networking import remote_peer as RP, messages as M
        self.u, self.case, self.simnet, self.RP, self.M = u, case, simnet, RP, M
        self.rnd = _random.Random(case["sched_seed"])
        simnet.install(self.rnd)
        self.real_batch = RP.GET_BLOCKS_INVENTORY_SIZE
        RP.GET_BLOCKS_INVENTORY_SIZE = case["batch"]
        simnet.CLOCK.now = 1_700_000_000 + case.get("clock_off", 0)
        self.net = simnet.Net()
        self.nodes = []
        for k, tips in enumerate(case["tips"]):
            ids = u.closure(tips)
            cs = u.coinstate(ids, _random.Random(case["sched_seed"] + k))
            if case.get("shared_host"):            # all nodes behind one address (one machine / one NAT), told apart by port only
                n = self.net.add("N%d" % k, "10.0.0.1", cs, 100 + k, port=2412 + k)
            else:
                n = self.net.add("N%d" % k, "10.0.0.%d" % (k + 1), cs, 100 + k)
            n.cm.started_at = simnet.CLOCK.now - case.get("started_ago", 0)
            self.nodes.append(n)
        for a, b_ in case["topo"]:
            peers = self.nodes[a].nm.disconnected_peers
            peers.update(RP.load_peers_from_list([(self.nodes[b_].host, self.nodes[b_].lp.port, RP.OUTGOING)]))
        blocked = {(self.nodes[x].name, (self.nodes[y].host, self.nodes[y].lp.port)) for x, y in case.get("blocked", [])}
        if blocked:
            orig_do = self.net.do

            def do(ev, arg=None):
                if ev[0] == "connect" and (ev[1].node.name, tuple(ev[1].remote_addr[:2])) in blocked:
                    arg = "refuse"
                return orig_do(ev, arg)

            self.net.do = do
        self.fails = []
        self.handled = 0
        self.sent = {}          # (node name, connection id, item id) -> count of unsolicited data messages (injections excluded)
        self.injecting = False
        sim = self
        self.orig_handle = RP.ConnectedRemotePeer.handle_message_received
        self.orig_send = RP.ConnectedRemotePeer.send_message

        def handle(peer, header, message):
            sim.handled += 1
            return sim.orig_handle(peer, header, message)

        def send(peer, message, prev_header=None):
            if isinstance(message, M.DataMessage) and prev_header is None and not sim.injecting:
                key = (peer.local_peer.nonce, id(peer.sock), message.data.hash())
                sim.sent[key] = sim.sent.get(key, 0) + 1
            return sim.orig_send(peer, message, prev_header)

        RP.ConnectedRemotePeer.handle_message_received = handle
        RP.ConnectedRemotePeer.send_message = send
        B = len(u.world.uni.nodes)
        self.cap = 20 * 8 * (2 * B + 2 * (B // max(1, min(case["batch"], B)) + 1) + 10)
        if case.get("pool_history"):
            # one node has HISTORY in its pool: it admitted a transaction, then saw it mined on its branch (the pool dropped it);
            # the network will later converge on a branch where that transaction is not mined, i.e. valid again
            ph = case["pool_history"]
            blk = u.blk(ph["block"])
            n = self.nodes[ph["node"]]
            if not n.cm.add_transaction_to_pool(u.b.to_sk_tx(blk.txs[ph["tx"]])):
                raise env.HarnessError("pool-history transaction refused at its block's parent")
            n.cm.set_coinstate(n.cm.coinstate.add_block_no_validation(u.sk_block(blk.id())))
            if n.cm.transaction_pool:
                raise env.HarnessError("pool-history transaction not evicted by the block that mines it")
            self.stats_pool_history = 1
        if case.get("pool_stale"):
            # one node holds a PENDING payment that is valid on its own branch only; the network converges on the other branch
            # (downloaded block by block), where one of its inputs does not exist.  Afterwards that node must take part in
            # the relay of a payment that spends the other input.
            n = self.nodes[case["pool_stale"]["node"]]
            if not n.cm.add_transaction_to_pool(u.b.to_sk_tx(u.pool_stale[0])):
                raise env.HarnessError("pool-stale transaction refused on its own branch")
            self.stats_pool_stale = 1
        self.init_heights = [n.cm.coinstate.head().height for n in self.nodes]
        self.want_h = max(self.init_heights)
        self.stats = {"fair_rounds": 0, "events": 0}

    def close(self):
        self.RP.GET_BLOCKS_INVENTORY_SIZE = self.real_batch
        self.RP.ConnectedRemotePeer.handle_message_received = self.orig_handle
        self.RP.ConnectedRemotePeer.send_message = self.orig_send

    def fail(self, kind, sig, msg):
        if not any(f["sig"] == sig for f in self.fails):
            self.fails.append({"kind": kind, "sig": sig, "msg": msg})

    # ------------------------------------------------------------ scheduling
    def source(self, e):
        return (e[0], e[1].node.name if hasattr(e[1], "node") and e[1].node else "?", e[1].id)

    def staged(self):
        """two nodes synchronise completely (several fair rounds among themselves) before the third takes part at all"""
        rnd, net = self.rnd, self.net
        if len(self.nodes) < 3:
            return
        pair = rnd.sample(self.nodes, 2)
        if self.case.get("staged_pair"):
            pair = [self.nodes[i] for i in self.case["staged_pair"]]
        hosts = {(n.host, n.lp.port) for n in pair}
        for _ in range(rnd.choice([2, 3, 5])):
            for n in pair:
                net.step(n)
            h0 = self.handled
            while True:
                evs = [e for e in net.enabled(only=pair) if e[0] != "connect" or (e[1].node in pair and tuple(e[1].remote_addr[:2]) in hosts)]
                if not evs:
                    break
                e = evs[rnd.randrange(len(evs))]
                net.do(e, rnd.choice([None, None, 100, 1024]) if e[0] == "arrive" else None)
                self.stats["events"] += 1
                if self.handled - h0 > self.cap:
                    self.fail("relay", "no-quiescence", "staged synchronisation of two nodes: %d protocol messages handled in one drain without reaching quiescence (cap %d)" % (self.handled - h0, self.cap))
                    return
            self.simnet.CLOCK.now += 61

    def scheduled(self, n_events):
        """drawn prefix of the schedule under one of five disciplines"""
        rnd, net = self.rnd, self.net
        mode = self.case["discipline"]
        if mode == "staged":
            self.staged()
            mode = "uniform"
        prio = {}
        starve = None
        for step in range(n_events):
            evs = net.enabled()
            timers = [("step", n) for n in self.nodes]
            if mode == "uniform":
                pool = evs + timers[: 1 + (step % 3 == 0) * len(timers)]
                e = pool[rnd.randrange(len(pool))]
            elif mode == "priority":
                if step % 37 == 0 and rnd.random() < 0.6:
                    prio = {}                                   # priority change point
                pool = evs + timers
                for x in pool:
                    k = self.source(x) if x[0] != "step" else ("step", x[1].name)
                    if k not in prio:
                        prio[k] = rnd.random()
                e = max(pool, key=lambda x: prio[self.source(x) if x[0] != "step" else ("step", x[1].name)])
                if e[0] == "step" and evs and rnd.random() < 0.7:
                    e = evs[rnd.randrange(len(evs))]
            elif mode == "run_to_completion":
                if evs:
                    e = evs[0] if rnd.random() < 0.8 else evs[-1]
                else:
                    e = timers[rnd.randrange(len(timers))]
            else:                                               # starvation of one source until the rest is quiet
                if starve is None:
                    starve = self.nodes[rnd.randrange(len(self.nodes))]
                other = [x for x in evs if getattr(x[1], "node", None) is not starve]
                if other:
                    e = other[rnd.randrange(len(other))]
                else:
                    pool = evs + timers
                    e = pool[rnd.randrange(len(pool))]
            if e[0] == "step":
                self.simnet.CLOCK.now += rnd.choice([0, 1, 1, 5, 30, 61])
                net.step(e[1])
            else:
                arg = None
                if e[0] == "arrive":
                    arg = rnd.choice([None, None, 1, 3, 17, 100, 1024])
                elif e[0] == "write":
                    arg = rnd.choice([None, None, 1, 7, 500])
                elif e[0] == "connect" and rnd.random() < 0.05:
                    arg = "refuse"
                net.do(e, arg)
            self.stats["events"] += 1
            if self.handled > self.cap * 4:
                break

    def drain(self, what, cap=None):
        cap = cap or self.cap
        h0 = self.handled
        n = 0
        while True:
            evs = self.net.enabled()
            if not evs:
                self.stats["max_handled_in_a_drain"] = max(self.stats.get("max_handled_in_a_drain", 0), self.handled - h0)
                return True
            e = evs[self.rnd.randrange(len(evs))]
            arg = None
            if e[0] == "arrive":
                arg = self.rnd.choice([None, None, 1, 100, 1024])
            elif e[0] == "write":
                arg = self.rnd.choice([None, None, 7, 500])
            self.net.do(e, arg)
            n += 1
            self.stats["events"] += 1
            if self.handled - h0 > cap:
                self.fail("relay", "no-quiescence", "%s: %d protocol messages handled in one drain without reaching quiescence (cap %d): traffic does not stop" % (what, self.handled - h0, cap))
                return False

    def snapshot(self):
        return [(len(n.cm.coinstate.block_by_hash), n.cm.coinstate.current_chain_hash, len(n.cm.transaction_pool)) for n in self.nodes]

    def fair_suffix(self, what, done, max_rounds=40, stuck_rounds=25, cap=None):
        """-> 'ok' | 'stuck' | 'bound' | 'noquiet'"""
        same = 0
        last = self.snapshot()
        for r in range(max_rounds):
            self.stats["fair_rounds"] += 1
            for n in self.nodes:
                self.net.step(n)
            if not self.drain(what, cap):
                return "noquiet"
            self.simnet.CLOCK.now += 61
            snap = self.snapshot()
            if snap == last:
                same += 1
            else:
                same = 0
            last = snap
            if done() and same >= 2:
                return "ok"
            if same >= stuck_rounds:
                return "stuck"
        return "bound"

    # ------------------------------------------------------------ oracles
    def check_escaped(self, what):
        if self.net.escaped:
            self.fail("escape", "exception-escaped:" + self.net.escaped[0][1].split("(")[0], "%s: %s raised out of a handler: %s" % (what, self.net.escaped[0][0], self.net.escaped[0][1]))

    def check_complete(self, what):
        for n in self.nodes:
            cs = n.cm.coinstate
            idx = cs.by_height_at_head()
            h = cs.head().height
            for k in range(h + 1):
                if k not in idx or idx[k].hash() not in cs.block_by_hash:
                    self.fail("sync", "incomplete-chain", "%s: %s lacks height %d of its head's chain" % (what, n.name, k))
                    return
            for bid, blk in cs.block_by_hash.items():
                if blk.height > 0 and blk.previous_block_hash not in cs.block_by_hash:
                    self.fail("sync", "parent-not-stored", "%s: %s stores a block without its parent" % (what, n.name))
                    return

    def check_relay_counts(self, what):
        for (nonce, conn, item), c in self.sent.items():
            if c > 1:
                self.fail("relay", "relayed-more-than-once", "%s: node %d sent item %s %d times unsolicited over one connection" % (what, nonce - 100, item.hex()[:12], c))
                return

    def run(self):
        case = self.case
        self.scheduled(case["n_events"])
        self.check_escaped("scheduled phase")
        if self.fails:
            return
        res = self.fair_suffix("synchronisation", lambda: all(n.cm.coinstate.head().height >= self.want_h for n in self.nodes))
        self.check_escaped("fair suffix")
        hs = [n.cm.coinstate.head().height for n in self.nodes]
        if res == "stuck" or (res == "ok" and min(hs) < self.want_h):
            self.fail("sync", "not-converged", "heads at heights %s after a fair suffix without progress; the greatest initial height is %d (initial %s, batch %d, topology %s)" % (
                hs, self.want_h, self.init_heights, case["batch"], case["topo"]))
        elif res == "bound":
            self.stats["inconclusive"] = 1
        if max(hs) > self.want_h:
            self.fail("sync", "height-above-any-initial", "a head at height %d appeared although no node started above %d" % (max(hs), self.want_h))
        self.check_complete("after synchronisation")
        self.check_relay_counts("synchronisation")
        if self.fails or res != "ok":
            return
        heads = {n.cm.coinstate.current_chain_hash for n in self.nodes}
        self.stats["common_head"] = int(len(heads) == 1)
        if len(heads) != 1 or not case.get("relay"):
            return
        self.relay_phase()

    def links_up(self):
        """is the graph of ACTIVE (greeted both ways) connections connected?"""
        index = {n.name: k for k, n in enumerate(self.nodes)}
        adj = {k: set() for k in range(len(self.nodes))}
        for k, n in enumerate(self.nodes):
            for p in n.nm.get_active_peers():
                other = getattr(getattr(p.sock, "peer", None), "node", None)      # the node at the far end of this connection
                if other is not None and getattr(other, "name", None) in index:
                    adj[k].add(index[other.name])
        for k in adj:                         # a link counts only when both ends consider it active
            adj[k] = {j for j in adj[k] if k in adj[j]}
        seen, todo = {0}, [0]
        while todo:
            for j in adj[todo.pop()]:
                if j not in seen:
                    seen.add(j)
                    todo.append(j)
        return len(seen) == len(self.nodes)

    def relay_phase(self):
        case, u, M = self.case, self.u, self.M
        b = u.b
        for _ in range(8):                    # the property is about connected nodes: let the greetings complete first
            if self.links_up():
                break
            for n in self.nodes:
                self.net.step(n)
            self.drain("greeting")
            self.simnet.CLOCK.now += 61
        if not self.links_up():
            self.stats["relay_skipped_not_connected"] = 1
            return
        self.stats["relay_phase"] = 1
        origin = self.nodes[case["relay"]["block_from"] % len(self.nodes)]
        head_id = origin.cm.coinstate.current_chain_hash
        hnode = u.world.uni.nodes[head_id]
        self.sent.clear()
        # 1. a transaction broadcast the way the send script does it (not added to the sender's own pool)
        sender = self.nodes[case["relay"]["tx_from"] % len(self.nodes)]
        cand = sorted((r, o) for r, o in hnode.utxo.items() if o[0] >= 2 and any(k.pub == o[1] for k in KEYS))
        tx = None
        if case.get("pool_history"):
            ph = case["pool_history"]
            t0 = u.blk(ph["block"]).txs[ph["tx"]]
            if all((h_, i_) in hnode.utxo for (h_, i_, _s) in t0.ins):
                tx = t0                       # the very transaction one node once pooled and dropped: valid again at the common head
                self.stats["relay_of_a_once_pooled_transaction"] = 1
        elif case.get("pool_stale"):
            t3 = u.pool_stale[1]
            if all((h_, i_) in hnode.utxo for (h_, i_, _s) in t3.ins):
                tx = t3
                self.stats["relay_past_a_node_that_held_a_payment_of_the_abandoned_branch"] = 1
        elif cand:
            ref, o = cand[case["relay"]["tx_pick"] % len(cand)]
            k = next(k for k in KEYS if k.pub == o[1])
            tx = R.RTx([(ref[0], ref[1], ("se",))], [(o[0] - 1, KEYS[3].pub)])
            tx.ins = [(ref[0], ref[1], ("sig", k.sign(R.signing_message(tx))))]
            tx.touch()
        if tx is not None:
            self.injecting = True
            sender.nm.broadcast_transaction(b.to_sk_tx(tx))
            self.injecting = False
            self.scheduled(min(case["relay"]["n_events"], 300))
            ok = self.fair_suffix("transaction relay", lambda: all(any(t.hash() == tx.id() for t in n.cm.transaction_pool) for n in self.nodes), max_rounds=6, stuck_rounds=4, cap=self.cap // 8)
            if ok == "noquiet":
                return
            self.check_escaped("transaction relay")
            missing = [n.name for n in self.nodes if not any(t.hash() == tx.id() for t in n.cm.transaction_pool)]
            if missing and ok != "noquiet":
                self.fail("relay", "transaction-did-not-reach-every-pool", "a valid transaction broadcast by %s while all heads were equal is missing from the pool of %s" % (sender.name, missing))
            self.check_relay_counts("transaction relay")
        # 2. a freshly mined block announced the way the miner does it
        label = "fresh%d" % case["sched_seed"]
        plabel = next(l for l, blk in u.world.blocks.items() if blk.id() == head_id)
        op = {"label": label, "parent": plabel, "miner": 2, "dt": u.world.safe_dt(hnode, 60), "txs": []}
        blk = u.world.build_block(op)
        skb = b.to_sk_block(blk)
        self.simnet.CLOCK.now = max(self.simnet.CLOCK.now, blk.ts)
        cs2 = origin.cm.coinstate.add_block(skb, self.simnet.CLOCK.now)
        origin.cm.set_coinstate(cs2)
        self.injecting = True
        origin.nm.broadcast_block(skb)
        self.injecting = False
        self.want_h += 1
        self.scheduled(case["relay"]["n_events"])
        res = self.fair_suffix("block relay", lambda: all(n.cm.coinstate.head().height >= self.want_h for n in self.nodes), max_rounds=30, stuck_rounds=25)
        self.check_escaped("block relay")
        hs = [n.cm.coinstate.head().height for n in self.nodes]
        if res == "stuck" or (res == "ok" and min(hs) < self.want_h):
            self.fail("relay", "announced-block-did-not-reach-every-node", "after a freshly found block was announced by %s heads are at heights %s, expected %d" % (origin.name, hs, self.want_h))
        self.check_relay_counts("block relay")
        self.check_complete("after block relay")


def gen_case(rnd, u):
    if rnd.random() < 0.4:
        # family "chain of three": low (on a deep side fork) -- mid -- high in a line; low and mid synchronise first, mid
        # learns the rest from high only afterwards (what mid downloads is not relayed: low must come back and ask)
        low = rnd.choice(["d15", "d15", "e24", "d27", "t5", "g"])
        mid = rnd.choice(["t20", "t20", "t12", "t30"])
        high = rnd.choice(["t30", "r31", "r31", "r30"])
        order = [0, 1, 2]
        rnd.shuffle(order)                                   # which node index plays which role
        tips = [None, None, None]
        tips[order[0]], tips[order[1]], tips[order[2]] = [low], [mid], [high]
        a, b_, c = order
        topo = rnd.choice([[(a, b_), (b_, c)], [(b_, a), (c, b_)], [(a, b_), (c, b_)], [(b_, a), (b_, c)]])
        case = {"tips": tips, "topo": [list(x) for x in topo], "batch": rnd.choice([500, 3, 4]), "sched_seed": rnd.randrange(1 << 30),
                "discipline": "staged", "staged_pair": [a, b_], "n_events": rnd.choice([0, 50, 300]), "clock_off": rnd.choice([0, 7, 59]),
                "started_ago": rnd.choice([0, 30, 10_000]), "family": "chain_of_three"}
        if rnd.random() < 0.7:
            case["blocked"] = [[a, c], [c, a]]               # low and high cannot reach each other directly (NAT / firewall)
        return case
    n = rnd.choice([2, 2, 3, 3, 3])
    tips = []
    for _ in range(n):
        k = rnd.choice([1, 1, 2])
        tips.append([u.tips[rnd.randrange(len(u.tips))] for _ in range(k)])
    if u.deep and rnd.random() < 0.12:
        # family "fork deeper than 100": one node on branch K (height 118), one on L (126); everybody must end on L
        third = rnd.random() < 0.4
        return {"tips": [["K118"], ["L126"]] + ([[rnd.choice(["t30", "K60", "g"])]] if third else []), "topo": [[0, 1]] + ([[2, 0]] if third else []),
                "batch": 500, "sched_seed": rnd.randrange(1 << 30), "discipline": rnd.choice(["uniform", "run_to_completion"]),
                "n_events": rnd.choice([0, 300]), "clock_off": rnd.choice([0, 7]), "started_ago": rnd.choice([0, 10_000]), "family": "fork_deeper_than_100"}
    if rnd.random() < 0.12 and u.pool_history:
        # line A - B - C; B once pooled a transaction that was then mined on its (shorter) d-branch; everybody ends on the t-branch
        name, ti = u.pool_history[rnd.randrange(len(u.pool_history))]
        return {"tips": [["r31"], ["t28"], [rnd.choice(["t12", "t20", "t28"])]], "topo": [[0, 1], [2, 1]], "blocked": [[0, 2], [2, 0]],
                "batch": rnd.choice([500, 4]), "sched_seed": rnd.randrange(1 << 30), "discipline": rnd.choice(["uniform", "priority", "run_to_completion"]),
                "n_events": rnd.choice([0, 50, 300]), "clock_off": rnd.choice([0, 7, 59]), "started_ago": rnd.choice([0, 30, 10_000]),
                "relay": {"block_from": 0, "tx_from": 0, "tx_pick": 0, "n_events": rnd.choice([0, 100])},
                "pool_history": {"node": 1, "block": name, "tx": ti}, "family": "pool_history"}
    if rnd.random() < 0.1 and u.pool_stale:
        # line A - B - C; B holds a pending payment of the t-branch; everybody ends on the r-branch
        return {"tips": [["r31"], ["t30"], [rnd.choice(["t12", "t20", "t28", "r29"])]], "topo": [[0, 1], [2, 1]], "blocked": [[0, 2], [2, 0]],
                "batch": rnd.choice([500, 4]), "sched_seed": rnd.randrange(1 << 30), "discipline": rnd.choice(["uniform", "priority", "run_to_completion"]),
                "n_events": rnd.choice([0, 50, 300]), "clock_off": rnd.choice([0, 7, 59]), "started_ago": rnd.choice([0, 30, 10_000]),
                "relay": {"block_from": 0, "tx_from": 0, "tx_pick": 0, "n_events": rnd.choice([0, 100])},
                "pool_stale": {"node": 1}, "family": "pool_stale"}
    if rnd.random() < 0.07:
        tips[rnd.randrange(n)] = ["x33"]            # one node holds the branch with the maximum-size block (a 200,000-byte message)
    topo = rnd.choice(TOPOS2 if n == 2 else TOPOS3)
    case = {"tips": tips, "topo": [list(x) for x in topo], "batch": rnd.choice([500, 3, 4, 3]), "sched_seed": rnd.randrange(1 << 30),
            "discipline": rnd.choice(["uniform", "priority", "run_to_completion", "starvation", "staged", "staged"]), "n_events": rnd.choice([0, 50, 300, 1500]),
            "clock_off": rnd.choice([0, 7, 59]), "started_ago": rnd.choice([0, 30, 10_000])}
    if rnd.random() < 0.3:
        case["shared_host"] = True           # every node behind ONE address (same machine / same NAT): peers differ by port only
    if rnd.random() < 0.5:
        case["relay"] = {"block_from": rnd.randrange(3), "tx_from": rnd.randrange(3), "tx_pick": rnd.randrange(50), "n_events": rnd.choice([0, 100, 600])}
    return case


def execute(case, u):
    sim = Sim(u, case)
    try:
        sim.run()
    finally:
        sim.close()
    return sim


def shards(tier):
    return [{"kind": "sim", "i": i} for i in range(16)]


def run(shard, tier, seed):
    res = Result()
    u = Universe(env.subseed(seed, ID, "uni", shard["i"] % 4), deep=shard["i"] == 15)
    n = 80 if tier == "quick" else 1500

    @hypothesis.seed(env.subseed(seed, ID, shard["i"]))
    @settings(max_examples=n, deadline=None, database=None, suppress_health_check=list(hypothesis.HealthCheck), phases=[hypothesis.Phase.generate])
    @given(st.randoms(use_true_random=True))
    def prop(rnd):
        case = gen_case(rnd, u)
        case["universe"] = shard["i"] % 4
        case["seed"] = seed
        try:
            sim = execute(case, u)
        except env.HarnessError:
            raise
        res.evaluations += 1
        res.count("simulations")
        res.count("events", sim.stats["events"])
        res.count("fair_rounds", sim.stats["fair_rounds"])
        res.count("protocol_messages_handled", sim.handled)
        res.count("discipline:" + case["discipline"])
        res.count("family:" + case.get("family", "free"))
        if any(t == "x33" for ts in case["tips"] for t in ts):
            res.count("chains_with_a_maximum_size_block")
        if case.get("shared_host"):
            res.count("shared_host_address")
            if sim.stats.get("relay_phase"):
                res.count("shared_host_address_with_relay_phase")
        res.count("batch:%d" % case["batch"])
        res.count("nodes:%d" % len(case["tips"]))
        res.extra["max_protocol_messages_in_one_drain"] = max(res.extra.get("max_protocol_messages_in_one_drain", 0), sim.stats.get("max_handled_in_a_drain", 0))
        res.extra["drain_cap"] = sim.cap
        if sim.stats.get("inconclusive"):
            res.count("inconclusive_at_bound")
        if sim.stats.get("relay_phase"):
            res.count("relay_phases")
        if sim.stats.get("relay_skipped_not_connected"):
            res.count("relay_skipped_not_connected")
        if sim.stats.get("common_head"):
            res.count("converged_to_common_head")
        must_download = any(h < sim.want_h for h in sim.init_heights)
        cross_fork = len({tuple(t) for t in case["tips"]}) > 1
        if (must_download and cross_fork) or case["batch"] < 10 or sim.stats.get("relay_phase"):
            res.nontrivial(env.digest(case))
        if res.counters["simulations"] in (1, 17):
            res.sample(case)
        for f in sim.fails:
            res.fail(f["kind"], f["sig"], f["msg"], case)

    prop()
    if res.counters.get("inconclusive_at_bound", 0) > max(2, res.counters.get("simulations", 0) // 10):
        res.error("%d of %d simulations were still progressing at the fair-suffix bound (inconclusive)" % (res.counters["inconclusive_at_bound"], res.counters["simulations"]))
    return res


def replay(case):
    u = Universe(env.subseed(int(case.get("seed", 1)), ID, "uni", case.get("universe", 0)), deep=case.get("family") == "fork_deeper_than_100")
    return execute(case, u).fails
