"""C20 -- malformed input from a peer is contained to that connection."""
import os
import struct

import hypothesis
from hypothesis import given, settings, strategies as st

from vf import chainexec, env, refmodel as R
from vf.keys import KEYS
from vf.result import Result, exc_sig

ID = "C20"
LEVEL = "exploration"
RULE = ("a simulated node with a generated forked chain, a pending pool (2 admitted transactions) and the REAL block store, two "
        "honest bystander connections that completed the greeting, and an attacker connection (greeted or not) fed: valid "
        "traffic of all message types (blocks the node already knows or structurally invalid ones; transactions that are "
        "invalid or already pooled -- so no legitimate state change is in the stream) after 1-4 drawn corruptions: bit flips, "
        "byte edits, truncation, insertion (incl. a 0x80 pad in front of a length/height), deletion, splicing two frames, "
        "reordering (data before greeting), length/magic edits, unknown message and data types, huge counts, in_response_to "
        "edits -- and random bytes; delivered under drawn fragmentation, followed by manager steps. Oracle: nothing escapes "
        "handle_remote_peer_selector_event / step_managers; chain state is the same object (or gained only blocks that pass "
        "the reference structural rules: outside this property's domain, counted), pool equal, store rows and write buffer "
        "unchanged; each bystander still registered, greeted, with unchanged queued bytes and still answered afterwards, and a "
        "new valid block delivered by a bystander after the attack is adopted; only "
        "the attacker's connection may be closed. non-trivial = stream that decodes at least one frame and then fails, or is "
        "rejected inside a handler (not just at the magic); distinct = digest of the stream.")
ASSUMPTIONS = ["simnet models the transport", "test configuration (fast scrypt stand-in, checkpoints off)",
               "peer-book changes caused by the attacker's greeting / peer announcements are outside the property"]
MIN_NONTRIVIAL = {"quick": 500, "thorough": 20000}


class Universe:
    """built once per shard: chain, pool transactions, store file"""

    def __init__(self, seed, long=False):
        import random
        from vf import simnet
        env.import_networking()
        from skepticoin import blockstore as BS
        self.simnet = simnet
        self.seed = seed
        rnd = random.Random(seed)
        self.long = long
        if long:
            # a chain of about 80 blocks: heights from 64 on are written with two octets (0x80 0x40 ...), so that shorter and longer
            # spellings of the same number exist for the block height
            # (short retarget period and slow blocks: the target saturates, so a copy of a block under other header bytes is not
            # stopped by the proof-of-work test alone -- what has to stop it is the decoder)
            case = chainexec.gen_case(rnd, chainexec.CFGS[0], 82, 0.0, ["C01"], p_fork=0.02, p_tx=0.15, dts=[1_000_000, 1_000_000, 10_000])
        else:
            case = chainexec.gen_case(rnd, chainexec.CFGS[3], 9, 0.0, ["C01"], p_fork=0.35, p_tx=0.8, dts=[120, 10, 2])
        self.run = chainexec.Run(case, ("C20",))
        self.run.execute()
        if self.run.degenerate():
            raise env.HarnessError(self.run.harness[0])
        self.b = self.run.build
        self.cs = self.run.cs
        self.led = self.run.world.uni
        self.known = [self.led.nodes[i].blk for i in self.led.order]
        # pool: two valid spends of the head's outputs
        head = self.led.nodes[self.cs.current_chain_hash]
        self.pool_txs = []
        for ref, o in sorted(head.utxo.items()):
            k = next((k for k in KEYS if k.pub == o[1]), None)
            if k is None or len(self.pool_txs) >= 2 or o[0] < 2:
                continue
            tx = R.RTx([(ref[0], ref[1], ("se",))], [(o[0] - 1, KEYS[0].pub)])
            tx.ins = [(ref[0], ref[1], ("sig", k.sign(R.signing_message(tx))))]
            self.pool_txs.append(tx.touch())
        # an invalid transaction (bad signature) and structurally invalid blocks
        used = {(i[0], i[1]) for t in self.pool_txs for i in t.ins}
        ref, o = next(((r, o) for r, o in sorted(head.utxo.items()) if r not in used), sorted(head.utxo.items())[0])
        bad = R.RTx([(ref[0], ref[1], ("sig", KEYS[1].sign(b"nonsense")))], [(1, KEYS[2].pub)])
        self.bad_txs = [bad, R.RTx([], [(1, KEYS[0].pub)]), R.RTx([(R.NULL32, 0, ("se",))], [(5, KEYS[0].pub)])]
        # properly signed spends whose amounts are out of range (zero / above the maximum / 64-bit maximum), no outputs, and
        # a reference used twice
        pubs = {kk.pub: kk for kk in KEYS}
        ref, o = next(((r, o) for r, o in sorted(head.utxo.items()) if r not in used and o[1] in pubs), (None, None)) or (None, None)
        if ref is None:
            ref, o = next((r, o) for r, o in sorted(head.utxo.items()) if o[1] in pubs)
        owner = pubs[o[1]]
        for outs in ([(0, KEYS[2].pub), (o[0], KEYS[3].pub)], [(0, KEYS[2].pub)], [(R.MAX_SASHIMI + 1, KEYS[2].pub)],
                     [((1 << 64) - 1, KEYS[2].pub)], [(R.MAX_SASHIMI, KEYS[2].pub), (1, KEYS[2].pub)], []):
            t = R.RTx([(ref[0], ref[1], ("se",))], outs)
            t.ins = [(ref[0], ref[1], ("sig", owner.sign(R.signing_message(t))))]
            self.bad_txs.append(t.touch())
        t = R.RTx([(ref[0], ref[1], ("se",)), (ref[0], ref[1], ("se",))], [(1, KEYS[2].pub)])
        t.ins = [(ref[0], ref[1], ("sig", owner.sign(R.signing_message(t))))] * 2
        self.bad_txs.append(t.touch())
        self.bad_blocks = []
        w = self.run.world
        head_label = next(l for l, blk in w.blocks.items() if blk.id() == self.cs.current_chain_hash)
        for i, s in enumerate(["no_transactions", "first_not_reward", "second_reward", "cb_two_inputs", "cb_sig_type", "cb_data_201"]):
            blk = w.build_block({"label": "bad%d" % i, "parent": head_label, "miner": 1, "dt": 60, "txs": [], "struct": s})
            self.bad_blocks.append(blk)
        blk = w.build_block({"label": "badm", "parent": head_label, "miner": 1, "dt": 60, "txs": [], "hdr": {"merkle": "other"}})
        self.bad_blocks.append(blk)
        blk = w.build_block({"label": "orph", "parent": head_label, "miner": 1, "dt": 60, "txs": [], "hdr": {"prev": "unknown"}})
        self.bad_blocks.append(blk)
        # structurally sound blocks that break a chain rule (reward too high, wrong height in the reward, time not increasing)
        for i, extra in enumerate([{"reward": {"delta": 1}}, {"hdr": {"cb_height": 1}}, {"hdr": {"ts": "parent"}}]):
            blk = w.build_block(dict({"label": "rule%d" % i, "parent": head_label, "miner": 1, "dt": w.safe_dt(head, 45), "txs": []}, **extra))
            if blk is not None:
                self.bad_blocks.append(blk)
        # a NEW valid block on the head (unknown to the node) and copies of it with a corrupted body under the genuine header
        self.next = w.build_block({"label": "next", "parent": head_label, "miner": 3, "dt": w.safe_dt(head, 45), "txs": []})
        self.next2 = None
        if self.next is not None:
            w.accept("next", self.next)            # (only so that a successor can be built; the node's state does not hold it)
            self.next2 = w.build_block({"label": "next2", "parent": "next", "miner": 4, "dt": 30, "txs": []})
        self.next_corrupt = []
        for k in range(3):
            cb = self.next.txs[0]
            alt = R.RTx(list(cb.ins), [(cb.outs[0][0] - k, KEYS[(4 + k) % len(KEYS)].pub)])
            c = R.RBlock(self.next.height, self.next.prev, self.next.merkle, self.next.ts, self.next.target, self.next.nonce, self.next.ev, [alt])
            self.next_corrupt.append(c)
        self.dir = env.fresh_subdir("c20")
        self.new_store()

    def new_store(self):
        from skepticoin import blockstore as BS
        path = os.path.join(self.dir, "chain%d.db" % len(os.listdir(self.dir)))
        with env.quiet():
            self.store = BS.BlockStore(path)
        self.store.write_blocks_to_disk([self.b.to_sk_block(x) for x in self.known[1:]])
        BS.DefaultBlockStore.instance = self.store

    def known_raws(self):
        if not hasattr(self, "_known_raws"):
            self._known_raws = {x.raw() for x in self.known}
        return self._known_raws

    def store_digest(self):
        rows = []
        for t in ("chain", "transaction_locator", "transaction_inputs", "transaction_outputs"):
            rows.append((t, self.store.sql("select count(*) from %s" % t).fetchone()[0]))
        return (tuple(rows), len(self.store.write_buffer))


class RawMessage:
    """a message given as raw bytes (unknown message / data types with arbitrary type bytes)"""

    def __init__(self, raw):
        self.raw = raw

    def serialize(self):
        return self.raw


def templates(u, M, rnd, wire):
    """valid traffic (no legitimate state change in it)"""
    b = u.b
    from ipaddress import IPv6Address
    known_ids = [x.id() for x in u.known]
    known_ids_and_next = known_ids + [u.next.id()] * 3
    choices = [
        lambda: wire.hello(nonce=rnd.randrange(1 << 32), my_port=rnd.choice([0, 2412, 65535]),
                           user_agent=bytes(rnd.randrange(256) for _ in range(rnd.choice([0, 1, 12, 255])))),
        lambda: M.GetBlocksMessage([rnd.choice(known_ids + [b"\x05" * 32]) for _ in range(rnd.randrange(0, 4))]),
        lambda: M.InventoryMessage([M.InventoryItem(rnd.choice([M.DATA_BLOCK, M.DATA_BLOCK, M.DATA_TRANSACTION, b"\x00\x09"]), rnd.choice(known_ids_and_next + [b"\x06" * 32])) for _ in range(rnd.randrange(0, 4))]),
        lambda: M.GetDataMessage(rnd.choice([M.DATA_BLOCK, M.DATA_BLOCK, M.DATA_TRANSACTION, M.DATA_HEADER]), rnd.choice(known_ids + [b"\x07" * 32])),
        lambda: M.DataMessage(M.DATA_BLOCK, b.to_sk_block(rnd.choice(u.known))),
        lambda: M.DataMessage(M.DATA_BLOCK, b.to_sk_block(rnd.choice(u.known[-8:] if u.long else u.known))),
        lambda: M.DataMessage(M.DATA_BLOCK, b.to_sk_block(rnd.choice(u.bad_blocks))),
        lambda: M.DataMessage(M.DATA_BLOCK, b.to_sk_block(rnd.choice(u.next_corrupt))),
        lambda: M.DataMessage(M.DATA_TRANSACTION, b.to_sk_tx(rnd.choice(u.pool_txs + u.bad_txs))),
        lambda: M.DataMessage(M.DATA_HEADER, b.to_sk_block(rnd.choice(u.known)).header),
        lambda: RawMessage(M.MSG_DATA + b"\x00" + bytes([rnd.randrange(256), rnd.randrange(256)]) + bytes(rnd.randrange(256) for _ in range(rnd.randrange(0, 40)))),
        lambda: RawMessage(bytes([0, rnd.randrange(7, 256)]) + b"\x00" + bytes(rnd.randrange(256) for _ in range(rnd.randrange(0, 40)))),
        lambda: RawMessage(M.MSG_GET_DATA + b"\x00" + bytes([rnd.randrange(256), rnd.randrange(256)]) + rnd.choice(known_ids)),
        lambda: M.GetPeersMessage(),
        lambda: M.PeersMessage([M.Peer(rnd.randrange(1 << 32), IPv6Address(rnd.choice(["::ffff:10.1.1.1", "::1", "2001:db8::1", "::ffff:224.0.0.1", "::ffff:255.255.255.255", "::ffff:0.0.0.0"])), rnd.choice([0, 2412, 65535])) for _ in range(rnd.randrange(0, 3))]),
    ]
    return rnd.choice(choices)()


M_DATA_BLOCK_PREFIX = b"\x00\x05\x00\x00\x01"      # placeholder, set by _set_prefix() from the real constants


def _set_prefix(M):
    global M_DATA_BLOCK_PREFIX
    M_DATA_BLOCK_PREFIX = M.MSG_DATA + b"\x00" + M.DATA_BLOCK


def respell_height(f, M, rnd):
    """frame carrying a block -> the same frame with the block's height spelt in fewer octets (0x80 0x40 -> 0x40) or padded"""
    f = bytearray(f)
    p = 8 + len(M.MessageHeader(0, 0, 0, 0).serialize()) + len(M_DATA_BLOCK_PREFIX) + 1      # version octet, then the height
    if f[8 + len(M.MessageHeader(0, 0, 0, 0).serialize()):p - 1] != M_DATA_BLOCK_PREFIX or p + 2 >= len(f):
        return bytes(f)
    if f[p] == 0x80 and f[p + 1] < 0x80 and rnd.random() < 0.7:
        del f[p]
    else:
        f[p:p] = b"\x80"
    f[4:8] = struct.pack(">I", len(f) - 8)
    return bytes(f)


def corrupt(rnd, frames, respell=False):
    """0-4 corruptions of a list of frames -> byte stream (0: intact but invalid / useless traffic)"""
    frames = list(frames)
    for _ in range(rnd.choice([0, 0, 1, 1, 1, 2, 3, 4])):
        k = rnd.randrange(10)
        i = rnd.randrange(len(frames))
        f = bytearray(frames[i])
        if k == 0 and len(f) > 8:
            p = rnd.randrange(8, len(f))
            f[p] ^= 1 << rnd.randrange(8)
        elif k == 1 and len(f) > 8:
            f[rnd.randrange(8, len(f))] = rnd.randrange(256)
        elif k == 2 and len(f) > 9:
            cut = rnd.randrange(8, len(f))                   # truncate the payload, fix or keep the length field
            f = f[:cut]
            if rnd.random() < 0.7:
                f[4:8] = struct.pack(">I", len(f) - 8)
        elif k == 3 and len(f) > 8:
            p = rnd.randrange(8, len(f))
            ins = rnd.choice([b"\x80", b"\x80\x80", b"\x00", b"\xff", bytes([rnd.randrange(256)])])
            f[p:p] = ins
            if rnd.random() < 0.8:
                f[4:8] = struct.pack(">I", len(f) - 8)
        elif k == 4 and len(f) > 9:
            p = rnd.randrange(8, len(f))
            del f[p]
            if rnd.random() < 0.8:
                f[4:8] = struct.pack(">I", len(f) - 8)
        elif k == 5 and len(frames) > 1:
            j = rnd.randrange(len(frames))
            a, b2 = bytes(f), frames[j]
            cut1, cut2 = rnd.randrange(len(a)), rnd.randrange(len(b2))
            f = bytearray(a[:cut1] + b2[cut2:])              # splice two frames
        elif k == 6:
            rnd.shuffle(frames)                              # reorder (data before greeting)
            continue
        elif k == 7:
            if rnd.random() < 0.5:
                f[rnd.randrange(4)] ^= 0x20                  # magic
            else:
                f[4:8] = struct.pack(">I", rnd.choice([0, 1, len(f) - 9, len(f), (1 << 25) + 1, 0xFFFFFFFF]))
        elif k == 8 and len(f) > 8 + 45 + 2:
            off = 8 + 45                                     # message type / version / data type bytes
            f[off + rnd.randrange(min(5, len(f) - off))] = rnd.choice([0, 1, 7, 9, 255, 0x25, 0x7B, 0x5C, rnd.randrange(256)])
        elif k == 9 and len(f) > 8 + 17:
            f[8 + 9:8 + 13] = struct.pack(">I", rnd.choice([0, 1, 5, 10000, 0xFFFFFFFF]))   # in_response_to
        frames[i] = bytes(f)
    return b"".join(frames)


def one_case(u, rnd, res, M, record=None, force=None):
    force = force or {}
    simnet = u.simnet
    from skepticoin import blockstore as BS
    BS.DefaultBlockStore.instance = u.store
    net = simnet.Net()
    # clock: head is fresh, start-up phase over, never a multiple of 60 during the case -> the chain manager's own
    # periodic fetching stays idle, so any traffic towards a bystander is caused by the attacker's input
    head_ts = u.cs.head().timestamp
    simnet.CLOCK.now = head_ts + 100 - (head_ts + 100) % 60 + 1
    node = net.add("victim", "10.0.0.1", u.cs, 99, disk=simnet.StoreDisk())
    node.cm.started_at = simnet.CLOCK.now - 10_000
    for t in u.pool_txs:
        if not node.cm.add_transaction_to_pool(u.b.to_sk_tx(t)):
            raise env.HarnessError("pool transaction refused")
    by = [simnet.Wire(net, node, host="10.0.0.%d" % (20 + i)) for i in range(2)]
    for i, w in enumerate(by):
        w.greet(nonce=1000 + i)
    att = simnet.Wire(net, node, host="10.6.6.6")
    greeted = force.get("greeted", rnd.random() < 0.6)
    if greeted:
        # a perfectly valid greeting, whose free-form fields the attacker chooses (arbitrary bytes in the user agent)
        att.greet(nonce=666, user_agent=rnd.choice([b"harness", b"sashimi 0.1.\xb3", bytes(rnd.randrange(256) for _ in range(rnd.randrange(0, 40))), b"%s%d{}\\"]))
    for _ in range(2):                       # warm-up: greetings answered, the node's own peer requests are out
        net.step(node)
        net.drain(None, only=[node])
    for w in by:
        w.collect()

    def snap():
        return {
            "cs": id(node.cm.coinstate), "pool": [t.hash() for t in node.cm.transaction_pool], "store": u.store_digest(),
            "by": [(w.node_sock in node.lp.selector.map, w.remote_peer.hello_received, w.remote_peer.hello_sent,
                    len(w.remote_peer.send_buffer) + sum(map(len, w.remote_peer.send_backlog)) + len(w.sock.inflight) + len(w.rx),
                    len(w.received), (w.host, w.remote_peer.port, w.remote_peer.direction) in node.nm.connected_peers) for w in by],
        }

    published = False
    pre = force.get("pre", rnd.choice(["publish"] * 6 + ["download"] * 5 + [None] * 9)) if u.next2 is not None else None
    if pre == "publish":
        # history before the attack: a bystander relays a new valid block (validated by the node), then the node publishes a
        # block of its OWN on top of it the way its miner does (set_coinstate without further ado)
        simnet.CLOCK.now = max(simnet.CLOCK.now, u.next2.ts + 1)
        simnet.CLOCK.now += (61 - simnet.CLOCK.now % 60) % 60 or 0
        if simnet.CLOCK.now % 60 == 0:
            simnet.CLOCK.now += 1
        by[1].send(M.DataMessage(M.DATA_BLOCK, u.b.to_sk_block(u.next)))
        by[1].deliver()
        if node.cm.coinstate.current_chain_hash == u.next.id():
            own = node.cm.coinstate.add_block(u.b.to_sk_block(u.next2), simnet.CLOCK.now)
            net.call(node, node.cm.set_coinstate, own)
            node.nm.broadcast_block(u.b.to_sk_block(u.next2))
            net.drain(None, only=[node])
            for w in by:
                w.collect()
            published = True
            res.count("cases_after_the_node_published_its_own_block")
    downloading, lkv = False, None
    if pre == "download":
        # history before the attack: a download from a bystander is under way - the node asked it for an announced block and
        # the answer (in_response_to != 0: taken without full validation, waiting in the store's write buffer) has arrived
        simnet.CLOCK.now = max(simnet.CLOCK.now, u.next2.ts + 1)
        if simnet.CLOCK.now % 60 == 0:
            simnet.CLOCK.now += 1
        w = by[1]
        n0 = len(w.received)
        w.send(M.InventoryMessage([M.InventoryItem(M.DATA_BLOCK, u.next.id())]))
        w.deliver()
        asks = [(h, m) for (h, m) in w.received[n0:] if isinstance(m, M.GetDataMessage) and m.hash == u.next.id()]
        if asks:
            w.send(M.DataMessage(M.DATA_BLOCK, u.b.to_sk_block(u.next)), in_response_to=asks[0][0].id)
            w.deliver()
            w.collect()
            if node.cm.coinstate.current_chain_hash == u.next.id() and len(u.store.write_buffer) > 0:
                downloading, lkv = True, node.cm.last_known_valid_coinstate
                res.count("cases_with_a_download_from_a_bystander_under_way")
    before = snap()
    cs_before = node.cm.coinstate
    # the attacker's stream
    mode = rnd.randrange(10)
    if mode == 0:
        stream = bytes(rnd.randrange(256) for _ in range(rnd.randrange(1, 300)))
    elif mode == 1:
        stream = b"MAJI" + struct.pack(">I", rnd.randrange(0, 200)) + bytes(rnd.randrange(256) for _ in range(rnd.randrange(0, 260)))
    else:
        frames = [att.frame(templates(u, M, rnd, att), in_response_to=rnd.choice([0, 0, 3])) for _ in range(rnd.randrange(1, 5))]
        _set_prefix(M)
        stream = corrupt(rnd, frames)
        high = [x for x in u.known if x.height >= 64] if u.long else []
        if high and rnd.random() < 0.5:
            # a stored block of the two-octet height range, sent again with its height spelt differently (alone or among other traffic)
            fr = respell_height(att.frame(M.DataMessage(M.DATA_BLOCK, u.b.to_sk_block(rnd.choice(high))), in_response_to=rnd.choice([0, 0, 3])), M, rnd)
            stream = fr if rnd.random() < 0.6 else (stream + fr if rnd.random() < 0.5 else fr + stream)
    if pre == "download" and rnd.random() < 0.3:
        # the combination that matters while a download is under way: an INTACT block that breaks a chain rule, pushed by the attacker
        rule = [x for x in u.bad_blocks if not _structural(u, x)]
        if rule:
            frames = [att.frame(M.DataMessage(M.DATA_BLOCK, u.b.to_sk_block(rnd.choice(rule))), in_response_to=0)]
            if rnd.random() < 0.5:
                frames.insert(rnd.randrange(2), att.frame(templates(u, M, rnd, att), in_response_to=rnd.choice([0, 0, 3])))
            stream = b"".join(frames)
    if record is not None:
        stream = record
    att.send_raw(stream)
    n_ev = net.drain(rnd, only=[node])
    for dt in (0, 1, 59, 61):
        simnet.CLOCK.now += dt
        net.step(node)
        net.drain(rnd, only=[node])
    after = snap()
    post = force.get("post", rnd.randrange(4))
    case = {"stream": stream.hex(), "greeted": greeted, "pre": pre, "post": post, "uni_seed": u.seed, "long": u.long}
    res.evaluations += 1
    handled = len(att.collect())
    # classification for the non-trivial rule: did the node decode at least one frame / reach a handler?
    payloads, refusal = R.parse_stream(stream)
    if payloads and (not att.connected or refusal is None):
        res.nontrivial(env.digest(stream.hex()))
    res.count("attacker_disconnected" if not att.connected else "attacker_still_connected")
    res.count("streams_greeted" if greeted else "streams_before_greeting")
    if net.stuck:
        res.fail("escape", "lock-left-held:" + net.stuck[0][1], "after %s returned, %s of the node is still held: the next handler that needs it blocks for ever (event loop stopped)" % (
            net.stuck[0][2], net.stuck[0][1]), case)
    if net.escaped:
        res.fail("escape", "exception-escaped:" + net.escaped[0][1].split("(")[0], "an exception left the node's event handling (in production it ends LocalPeer.run()): %s" % net.escaped[0][1], case)
    dirty = False
    dropped = False
    if downloading and after["cs"] != before["cs"] and node.cm.coinstate is lkv and len(u.store.write_buffer) == 0 and after["store"][0] == before["store"][0]:
        # by design: a block that breaks a chain rule makes the node fall back to its last fully validated state, and the
        # not yet validated download goes with it (state and write buffer together). Not a change BY the malformed input's content.
        dropped = True
        res.count("unvalidated_download_dropped_together_with_a_rule_breaking_block(by design)")
        after = dict(after, cs=before["cs"], store=before["store"])
    if after["cs"] != before["cs"]:
        new = [i for i in node.cm.coinstate.block_by_hash.keys() if i not in cs_before.block_by_hash]
        malformed = []
        for i in new:
            blk = u.b.from_sk_block(node.cm.coinstate.block_by_hash[i])
            v = [c for c in _structural(u, blk)]
            if not v and blk.raw() in u.known_raws() and i != blk.id():
                # the SAME block as one the node already stores (field for field), taken a second time under another id because
                # its bytes were spelt differently: a non-canonical encoding is malformed input
                v = ["S:second-spelling-of-a-stored-block"]
            if v:
                malformed.append(v[0])
        if malformed or not new:
            res.fail("state", "chain-state-changed-by-malformed-input", "chain state changed (%d new blocks; structural defects: %s)" % (len(new), malformed[:2]), case)
        else:
            res.count("structurally_valid_block_entered_state(outside C20)")
            dirty = True               # (the store is replaced at the END of the case: the node goes on using it until then)
    if after["pool"] != before["pool"]:
        res.fail("state", "pool-changed-by-malformed-input", "pending pool changed", case)
    if after["store"] != before["store"] and after["cs"] == before["cs"]:
        res.fail("state", "store-changed-by-malformed-input", "store rows / write buffer changed: %s -> %s" % (before["store"], after["store"]), case)
        dirty = True               # (the store is replaced at the END of the case: the node goes on using it until then)
    for i, (x, y) in enumerate(zip(before["by"], after["by"])):
        if x != y:
            res.fail("bystander", "bystander-affected", "bystander %d connection state changed: %s -> %s" % (i, x, y), case)
    # bystanders are still served
    for w in by:
        n0 = len(w.received)
        w.send(M.GetPeersMessage())
        w.deliver()
        if not any(isinstance(m, M.PeersMessage) for _h, m in w.received[n0:]):
            res.fail("bystander", "bystander-not-served", "a bystander's request is no longer answered after the attack", case)
    if net.escaped and not res.failures:
        res.fail("escape", "exception-escaped-late", net.escaped[0][1], case)
    # and a NEW valid block delivered by a bystander afterwards is still adopted (the attack must not have poisoned anything)
    if post >= 2 and after["cs"] == before["cs"] and not published and not downloading:
        w = by[0]
        simnet.CLOCK.now = max(simnet.CLOCK.now, u.next.ts)
        if post == 2:
            w.send(M.DataMessage(M.DATA_BLOCK, u.b.to_sk_block(u.next)))
            w.deliver()
            res.count("bystander_delivers_new_block_after_attack")
        else:
            # the bystander ANNOUNCES the block (inventory); the node must ask for it and adopt it when it is served
            n0 = len(w.received)
            w.send(M.InventoryMessage([M.InventoryItem(M.DATA_BLOCK, u.next.id())]))
            w.deliver()
            asks = [(h, m) for (h, m) in w.received[n0:] if isinstance(m, M.GetDataMessage) and m.hash == u.next.id()]
            res.count("bystander_announces_new_block_after_attack")
            if not asks:
                res.fail("bystander", "announced-block-not-requested-after-attack", "after the attacker's input a block announced by a well-behaved peer is never requested", case)
            else:
                w.send(M.DataMessage(M.DATA_BLOCK, u.b.to_sk_block(u.next)), in_response_to=asks[0][0].id)
                w.deliver()
        if node.cm.coinstate.current_chain_hash != u.next.id() and not res.failures:
            res.fail("bystander", "valid-block-from-bystander-refused-after-attack", "after the attacker's input a NEW valid block delivered by a well-behaved peer is not adopted", case)
    if downloading and not res.failures:
        # the download goes on after the attack: the next blocks arrive validated from the other bystander; state AND store follow
        w = by[0]
        for blk in ([u.next] if node.cm.coinstate.current_chain_hash != u.next.id() else []) + [u.next2]:
            w.send(M.DataMessage(M.DATA_BLOCK, u.b.to_sk_block(blk)))
            w.deliver()
        stored = {bytes(r[0]) for r in u.store.sql("select block_hash from chain").fetchall()}
        held = set(node.cm.coinstate.block_by_hash.keys())
        if net.escaped or net.stuck:
            res.fail("escape", "exception-escaped-late", str((net.escaped or net.stuck)[0][1]), case)
        elif node.cm.coinstate.current_chain_hash != u.next2.id() or w.node_sock not in node.lp.selector.map:
            res.fail("bystander", "download-cannot-continue-after-attack", "a download from well-behaved peers was under way; after the attacker's input the following valid blocks are %s" % (
                "not adopted" if w.node_sock in node.lp.selector.map else "answered by disconnecting the well-behaved peer that delivers them"), case)
        elif stored != held or len(u.store.write_buffer):
            res.fail("state", "store-does-not-follow-state-after-attack", "after the attacker's input and the next validated block the chain state holds %d blocks, the store %d (+%d buffered; %d of the state's are missing)" % (
                len(held), len(stored), len(u.store.write_buffer), len(held - stored)), case)
    if dirty or pre is not None or node.cm.coinstate is not cs_before or u.store_digest() != before["store"]:
        u.new_store()                  # nothing of this case (e.g. the bystander's new block in the write buffer) leaks into the next
    return case


def _structural(u, blk):
    """reference structural (by-itself) clauses only"""
    bad = []
    if len(blk.txs) == 0:
        return ["S:no-transactions"]
    cb = blk.txs[0]
    if len(cb.ins) != 1 or cb.ins[0][0] != R.NULL32 or cb.ins[0][1] != 0 or cb.ins[0][2][0] != "cb":
        bad.append("S:first-not-reward")
    elif len(cb.ins[0][2][2]) > R.MAX_CB_DATA or cb.ins[0][2][1] != blk.height:
        bad.append("S:reward-data")
    for tx in blk.txs[1:]:
        if not tx.ins or not tx.outs or any(i[0] == R.NULL32 and i[1] == 0 for i in tx.ins) or any(i[2][0] != "sig" for i in tx.ins):
            bad.append("S:transaction-shape")
    if blk.merkle != R.merkle_root([t.id() for t in blk.txs]):
        bad.append("S:merkle")
    if not int.from_bytes(blk.id(), "big") < int.from_bytes(blk.target, "big"):
        bad.append("S:pow")
    return bad


def shards(tier):
    return [{"kind": "streams", "i": i} for i in range(15)] + [{"kind": "persistent"}]


def run_persistent(res, tier, seed):
    """an address the node keeps dialling answers EVERY connection with garbage (or hangs up at once), for the whole retry
    schedule (2,881 connections, the real constants): no exception may leave the node's event handling or manager steps, and a
    well-behaved bystander is still served throughout"""
    from vf.props.c19 import long_dead_peer
    for mode in (["garbage"] if tier == "quick" else ["garbage", "close", "refuse"]):
        out = long_dead_peer(mode, bystander=True)
        res.evaluations += len(out["attempts"])
        res.disjoint += len(out["attempts"])
        res.count("persistent_garbage_connections:" + mode, len(out["attempts"]))
        case = {"persistent": mode}
        if out["escaped"]:
            res.fail("escape", "exception-escaped:" + out["escaped"][0][1].split("(")[0], "an address that answers every connection with %s: at its connection #%d an exception left the node's event handling / manager step (in production it ends LocalPeer.run()): %s" % (
                mode, len(out["attempts"]), out["escaped"][0][1]), case)
        if out["unserved"]:
            res.fail("bystander", "bystander-not-served", "while an address answered every connection with %s a bystander's request went unanswered %d time(s)" % (mode, out["unserved"]), case)
    res.sample({"persistent_malformed_peer": "2,881 connections that all end in garbage; bystander polled every 200 connections"})
    return res


def run(shard, tier, seed):
    res = Result()
    if shard["kind"] == "persistent":
        return run_persistent(res, tier, seed)
    u = Universe(env.subseed(seed, ID, "uni", shard["i"] % 4), long=shard["i"] == 14)
    u.simnet.install()
    from skepticoin.networking import messages as M
    n = (500 if tier == "quick" else 12000) // (3 if shard["i"] == 14 else 1)      # (the long universe is slower per case)

    @hypothesis.seed(env.subseed(seed, ID, shard["i"]))
    @settings(max_examples=n, deadline=None, database=None, suppress_health_check=list(hypothesis.HealthCheck), phases=[hypothesis.Phase.generate])
    @given(st.randoms(use_true_random=True))
    def prop(rnd):
        u.simnet.install(rnd)
        case = one_case(u, rnd, res, M)
        if res.evaluations in (3, 40):
            res.sample({"stream_hex_prefix": case["stream"][:160], "bytes": len(case["stream"]) // 2, "attacker_greeted": case["greeted"]})

    prop()
    return res


def replay(case):
    import random
    res = Result()
    if "persistent" in case:
        return run_persistent(res, "thorough" if case["persistent"] != "garbage" else "quick", 1).failures
    u = Universe(case.get("uni_seed", env.subseed(1, ID, "uni", 0)), long=bool(case.get("long")))
    u.simnet.install(random.Random(0))
    from skepticoin.networking import messages as M
    force = {k: case[k] for k in ("greeted", "pre", "post") if k in case}
    for s in range(4):
        rnd = random.Random(s)
        u.simnet.install(rnd)
        one_case(u, rnd, res, M, record=bytes.fromhex(case["stream"]), force=force)
        if res.failures:
            break
    return res.failures
