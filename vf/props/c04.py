"""C04 -- fork choice (first-seen block of greatest height), tips, by-height index.  Bounded-exhaustive + random."""
import hypothesis
from hypothesis import given, settings, strategies as st

from vf import chainexec, env, refmodel as R
from vf.result import Result

ID = "C04"
LEVEL = "exploration"
RULE = ("(a) EXHAUSTIVE: every arrival history in which the i-th new block picks any of the i earlier blocks as parent "
        "(n! histories of n blocks; all n <= 8 quick = 46,234 states, n <= 10 thorough = 4,037,914 states), explored as a "
        "DFS over the persistent CoinState via add_block_no_validation; after every arrival: current_chain_hash == earliest-"
        "arrived block of maximal height, heads == stored blocks without stored children, block_by_height_by_hash[b] == "
        "ancestors-and-self for EVERY stored block (identity fast path, full comparison otherwise), forks() = one pair per "
        "tip with the deepest common ancestor on the head's chain. (b) Hypothesis: random validated histories with "
        "transactions (up to 40 blocks quick / 60 thorough, fork-heavy) through add_block with the same oracle after each "
        "arrival (a valid arrival that is refused counts as a violation: the head is then not the best arrived block). (c) the same "
        "histories, interleaved with rule-breaking blocks, DELIVERED to a simulated node by a peer (relay path with its rollback), "
        "oracle on the chain state the node serves. non-trivial = state (history prefix) containing a tie at maximal height or a tip that stopped being a tip "
        "(exhaustive part: counted per state, states are distinct by construction); (b): digest of the op list.")
ASSUMPTIONS = ["exhaustive part uses unvalidated reward-only blocks (fork choice does not depend on validation)",
               "total work = height (as this version defines it)"]
MIN_NONTRIVIAL = {"quick": 20_000, "thorough": 1_000_000}


def shards(tier):
    return ([{"kind": "dfs", "i": i, "n": 16} for i in range(16)] + [{"kind": "hist", "i": i} for i in range(4)] + [{"kind": "relay", "i": i} for i in range(2)]
            + [{"kind": "tall", "base": 300}, {"kind": "tall", "base": 127}])


class Dfs:
    def __init__(self, res, nmax, base=0):
        env.import_repo()
        from skepticoin import datatypes as D, signing as S
        from skepticoin.coinstate import CoinState
        self.D, self.S = D, S
        self.res = res
        self.nmax = nmax
        self.cs0 = CoinState.zero()
        g = self.cs0.head()
        self.ghash = self.cs0.current_chain_hash
        self.pk = S.SECP256k1PublicKey(b"\x11" * 64)
        self.cb = {}
        self.counter = 0
        # model: lists indexed by arrival order
        self.parent = [None]
        self.height = [0]
        self.hashes = [self.ghash]
        self.blocks = [self.cs0.block_by_hash[self.ghash]]
        self.kids = [0]
        self.chain = [(self.ghash,)]
        self.states = 0
        self.visited = 0
        self.nontrivial = 0
        # "tall" variant: the histories start on top of a straight chain of `base` blocks (heights beyond 256, beyond one octet),
        # and new blocks attach to its last two blocks or to each other
        self.base = 0
        if base:
            cs = self.cs0
            for _ in range(base):
                cs = self.step(cs, len(self.parent) - 1)
            self.cs0 = cs
            self.base = base

    def mk(self, pi):
        D, S = self.D, self.S
        h = self.height[pi] + 1
        if h not in self.cb:
            self.cb[h] = D.Transaction([D.Input(D.OutputReference(b"\x00" * 32, 0), S.CoinbaseData(h, b"c04"))], [D.Output(1, self.pk)])
            self.cb[h].cached_hash = self.cb[h].hash()
        self.counter += 1
        summ = D.BlockSummary(h, self.hashes[pi], b"\x00" * 32, 1_700_000_000 + h, b"\xff" * 32, self.counter & 0xFFFFFFFF)
        return D.Block(D.BlockHeader(summ, D.PowEvidence(b"\x00" * 32, (self.counter >> 32).to_bytes(32, "big"), b"\x00" * 32)), [self.cb[h]])

    def check(self, cs, prev_cs, ties, count=True):
        res = self.res
        n = len(self.parent)
        # reference head: earliest arrival among maximal height
        mh = max(self.height)
        hi = self.height.index(mh)
        if cs.current_chain_hash != self.hashes[hi]:
            self.bad("head", "head!=first-seen-highest", "head is arrival #%s, reference #%d" % (self.hashes.index(cs.current_chain_hash) if cs.current_chain_hash in self.hashes else "?", hi))
        tips = {self.hashes[i] for i in range(n) if self.kids[i] == 0}
        if set(cs.heads.keys()) != tips or any(cs.heads[t].hash() != t for t in cs.heads.keys()):
            self.bad("tips", "tips!=childless", "reported %d tips, reference %d" % (len(cs.heads), len(tips)))
        if len(cs.block_by_hash) != n or len(cs.block_by_height_by_hash) != n:
            self.bad("index", "stored-set", "stored %d blocks / %d indexes, expected %d" % (len(cs.block_by_hash), len(cs.block_by_height_by_hash), n))
        for i in range(n):
            m = cs.block_by_height_by_hash.get(self.hashes[i])
            if m is None:
                self.bad("index", "index-missing", "no index for arrival #%d" % i)
                continue
            if i < n - 1 and prev_cs is not None and m is prev_cs.block_by_height_by_hash.get(self.hashes[i]):
                continue                            # same immutable object as in the (already verified) previous state
            ch = self.chain[i]
            if len(m) != len(ch) or any((h not in m) or m[h].hash() != ch[h] for h in range(len(ch))):
                self.bad("index", "index!=ancestors", "by-height index of arrival #%d wrong" % i)
        # forks(): one pair per tip, second = deepest common ancestor with the head's chain
        try:
            fk = cs.forks()
            hc = self.chain[hi]
            want = {}
            for i in range(n):
                if self.kids[i] == 0:
                    ci = self.chain[i]
                    k = 0
                    while k + 1 < min(len(ci), len(hc)) and ci[k + 1] == hc[k + 1]:
                        k += 1
                    want[self.hashes[i]] = ci[k]
            got = {a.hash(): b.hash() for a, b in fk}
            if got != want or len(fk) != len(want):
                self.bad("forks", "forks()", "forks() pairs differ from reference")
        except Exception as e:
            self.bad("forks", "forks()-raised", repr(e))
        self.visited += 1
        if count:
            self.states += 1
            if ties:
                self.nontrivial += 1

    def bad(self, kind, sig, msg):
        if self.base:
            self.res.fail(kind, sig + ":tall", msg + " after a straight chain of %d blocks and then parents=%s (arrival numbers)" % (self.base, self.parent[1 + self.base:]),
                          {"parents": list(self.parent[1 + self.base:]), "base": self.base})
            return
        self.res.fail(kind, sig, msg + " after history parents=%s" % (self.parent[1:],), {"parents": list(self.parent[1:])})

    def step(self, cs, pi):
        blk = self.mk(pi)
        cs2 = cs.add_block_no_validation(blk)
        self.parent.append(pi)
        self.height.append(self.height[pi] + 1)
        self.hashes.append(blk.hash())
        self.blocks.append(blk)
        self.kids.append(0)
        self.kids[pi] += 1
        self.chain.append(self.chain[pi] + (blk.hash(),))
        return cs2

    def undo(self):
        pi = self.parent.pop()
        self.height.pop()
        self.hashes.pop()
        self.blocks.pop()
        self.kids.pop()
        self.kids[pi] -= 1
        self.chain.pop()

    def rec(self, cs, ties):
        n = len(self.parent)
        if n - 1 - self.base >= self.nmax:
            return
        mh = max(self.height)
        for pi in range(max(0, self.base - 1) if self.base else 0, n):
            t2 = ties or self.height[pi] + 1 == mh           # the new block ties the current maximal height
            cs2 = self.step(cs, pi)
            self.check(cs2, cs, t2)
            self.rec(cs2, t2)
            self.undo()

    def run_prefix(self, prefix):
        cs = self.cs0
        ties = False
        for k, pi in enumerate(prefix):
            prev = cs
            mh = max(self.height)
            ties = ties or self.height[pi] + 1 == mh
            cs = self.step(cs, pi)
            # a state shorter than the prefix depth is shared by several shards: counted by the owner of its
            # all-zero extension only
            self.check(cs, prev, ties, count=all(q == 0 for q in prefix[k + 1:]))
        self.rec(cs, ties)
        for _ in prefix:
            self.undo()


def prefixes(depth):
    out = [[]]
    for d in range(depth):
        out = [p + [j] for p in out for j in range(len(p) + 1)]
    return out


def replay_parents(parents, res, base=0):
    d = Dfs(res, len(parents), base)
    cs = d.cs0
    ties = False
    for pi in parents:
        prev = cs
        ties = ties or d.height[pi] + 1 == max(d.height)
        cs = d.step(cs, pi)
        d.check(cs, None, ties)
    return d


RESTARTS = [0]


class C04Run(chainexec.Run):
    def restart(self, how):
        """after a restart the blocks have ARRIVED again, in the order in which the start-up code read them from the store
        (by height): "first seen" is from then on judged against that order"""
        n0 = self.stats.get("restarts", 0)
        super().restart(how)
        if self.stats.get("restarts", 0) > n0:
            RESTARTS[0] += 1
            led = self.world.uni
            seen = [i for i in self.restart_order if i in led.nodes]
            rest = [i for i in led.order if i not in set(seen)]
            if led.genesis.id in rest:
                rest.remove(led.genesis.id)
                seen.insert(0, led.genesis.id)
            led.order[:] = ([led.genesis.id] if led.genesis.id not in seen else []) + seen + rest

    def oracle(self):
        led, cs = self.world.uni, self.cs
        lost = [i for i in led.order if i not in cs.block_by_hash]
        if lost:
            self.fail("arrival", "arrived-valid-block-no-longer-stored", "validated history: %d valid block(s) that had arrived and been accepted are no longer in chain state (first: %s)" % (len(lost), lost[0].hex()[:12]))
            return
        if cs.current_chain_hash != led.head().id:
            self.fail("head", "head!=first-seen-highest", "validated history: head differs from reference")
        if set(cs.heads.keys()) != led.tips():
            self.fail("tips", "tips!=childless", "validated history: tips differ")
        for i in led.order:
            m = cs.block_by_height_by_hash[i]
            ref = led.index(i)
            if len(m) != len(ref) or any(h not in m or m[h].hash() != ref[h] for h in ref):
                self.fail("index", "index!=ancestors", "validated history: index of %s wrong" % i.hex()[:12])
                break


Refused = chainexec.Refused
NodeState = chainexec.NodeState


def replay_relay(case):
    """the arrival history (valid blocks of competing branches, interleaved with rule-breaking ones) is delivered to a node
    by a peer; after every delivery the node's head, tips and index must be those of the valid arrivals so far"""
    env.import_networking()
    r = C04Run({"cfg": case["cfg"], "ops": []}, ("C04",))
    r.cs = NodeState()
    for op in case["ops"]:
        if "redeliver" in op:
            # a block the node already stores arrives AGAIN -- unsolicited, or as the answer to a request (two peers serving the
            # same stretch of chain): no effect on head, tips and index
            blk = r.world.blocks.get(op["redeliver"])
            if blk is None or blk.id() not in r.world.uni.nodes:
                continue
            ns = r.cs
            if not ns.wire.connected:
                ns.connect()
            ns.wire.send(ns.M.DataMessage(ns.M.DATA_BLOCK, r.build.to_sk_block(blk)), in_response_to=op["irt"])
            ns.wire.deliver()
            ns.net.drain(None, only=[ns.node])
            r.stat("redeliveries")
            r.oracle()
            if r.fails:
                return [dict(f, msg="after a repeated delivery (in_response_to=%d) of a stored block: %s" % (op["irt"], f["msg"])) for f in r.fails]
            continue
        r.case = {"cfg": case["cfg"], "ops": [op]}
        r.execute()
        if r.harness:
            r.fail("arrival", "valid-arrival-refused:relay", "a fully valid block delivered by a peer (parent known) was not taken into chain state: %s" % r.harness[0])
        r.oracle()
        if r.cs.net.escaped:
            r.fail("escape", "exception-escaped-handler", r.cs.net.escaped[0][1])
        if r.fails:
            return r.fails
    return []


def run(shard, tier, seed):
    res = Result()
    if shard["kind"] == "relay":
        n = 12 if tier == "quick" else 200

        @hypothesis.seed(env.subseed(seed, ID, "relay", shard["i"]))
        @settings(max_examples=n, deadline=None, database=None, suppress_health_check=list(hypothesis.HealthCheck),
                  phases=[hypothesis.Phase.generate])
        @given(st.randoms(use_true_random=True), st.sampled_from(chainexec.CFGS[:3]), st.integers(8, 24))
        def prop(rnd, cfg, k):
            case = chainexec.gen_case(rnd, cfg, k, 0.3, ["C05", "C02", "C01"], p_fork=0.55, p_tx=0.4, p_twin=0.0)
            case.pop("horizon", None)
            ops, seen = [], []
            for o in case["ops"]:
                ops.append(o)
                if not o.get("mut"):
                    seen.append(o["label"])
                if len(seen) >= 2 and rnd.random() < 0.3:
                    ops.append({"label": "re%d" % len(ops), "parent": "g", "txs": [], "miner": 0, "redeliver": rnd.choice(seen[:-1]), "irt": rnd.choice([0, 7, 7])})
            case["ops"] = ops
            case["relay"] = True
            fails = replay(case)
            res.evaluations += len(case["ops"])
            res.count("relayed_histories")
            if any(o.get("mut") for o in case["ops"]):
                res.count("relayed_histories_with_rule_breaking_blocks")
            res.nontrivial(env.digest(case))
            for f in fails:
                res.fail(f["kind"], f["sig"], f["msg"], case)
            if res.counters["relayed_histories"] == 1:
                res.sample({"relayed_history_ops": [(o["label"], o["parent"], o.get("mut")) for o in case["ops"]]})

        prop()
        return res
    if shard["kind"] == "tall":
        nmax = 5 if tier == "quick" else 7
        d = Dfs(res, nmax, base=shard["base"])
        d.rec(d.cs0, False)
        res.evaluations = d.visited
        res.disjoint = d.nontrivial
        res.count("tall_states_visited", d.visited)
        res.sample({"tall": "all arrival histories of <= %d blocks on top of a straight chain of %d, attaching to its last two blocks or to each other" % (nmax, shard["base"])})
        return res
    if shard["kind"] == "dfs":
        nmax = 8 if tier == "quick" else 10
        d = Dfs(res, nmax)
        depth = 4
        pf = prefixes(depth)
        mine = [p for k, p in enumerate(pf) if k % shard["n"] == shard["i"]]
        # states of depth <= prefix depth are shared between shards: only shard 0 counts them
        for p in mine:
            d.run_prefix(p)
        res.evaluations = d.visited
        res.disjoint = d.nontrivial
        res.count("dfs_distinct_states", d.states)
        res.count("dfs_states_visited", d.visited)
        res.count("dfs_prefixes", len(mine))
        res.exhaustive = True
        res.extra["exhaustive_bound"] = "all arrival histories of n <= %d blocks = %d distinct states (classes.dfs_distinct_states must equal this)" % (nmax, sum(_fact(k) for k in range(1, nmax + 1)))
        res.sample({"parents_of_arrivals_1..n": mine[0] + [0] * 2, "meaning": "i-th new block's parent is arrival #parents[i-1] (0 = genesis)"})
        return res
    # (b) random validated histories
    n = 10 if tier == "quick" else 150
    nb = (10, 40) if tier == "quick" else (10, 60)
    orig = chainexec.Run.execute

    @hypothesis.seed(env.subseed(seed, ID, "hist", shard["i"]))
    @settings(max_examples=n, deadline=None, database=None, suppress_health_check=list(hypothesis.HealthCheck),
              phases=[hypothesis.Phase.generate])
    @given(st.randoms(use_true_random=True), st.sampled_from(chainexec.CFGS), st.integers(*nb))
    def prop(rnd, cfg, k):
        if shard["i"] == 3 and res.counters.get("validated_histories", 0) % 2 == 0:
            # very long histories with branches that start more than 32 blocks below the head
            case = chainexec.gen_case(rnd, cfg, 42 + k % 9, 0.0, ["C05"], p_fork=0.15, p_deep_fork=0.3, deep_min=32, p_tx=0.4, p_restart=0.02)
            res.count("validated_histories_with_branches_32_below_head")
        else:
            case = chainexec.gen_case(rnd, cfg, k, 0.0, ["C05"], p_fork=0.65, p_tx=0.4, p_restart=0.05)
        fails = replay(case)
        res.evaluations += len(case["ops"])
        res.count("validated_histories")
        res.counters["restarts_in_validated_histories"] = RESTARTS[0]
        res.nontrivial(env.digest(case))
        for f in fails:
            res.fail(f["kind"], f["sig"], f["msg"], case)
        if res.counters["validated_histories"] == 1:
            res.sample({"validated_history_ops": [(o["label"], o["parent"]) for o in case["ops"]]})

    prop()
    return res


def _fact(k):
    r = 1
    for i in range(2, k + 1):
        r *= i
    return r


def replay(case):
    if "parents" in case:
        res = Result()
        replay_parents(case["parents"], res, case.get("base", 0))
        return res.failures
    if case.get("relay"):
        return replay_relay(case)
    # validated history: run op by op, oracle after each
    r = C04Run({k: case[k] for k in ("cfg", "horizon") if k in case}, ("C04",))
    r.case["ops"] = []
    fails = []
    for op in case["ops"]:
        r.case = dict(r.case, ops=[op])
        r.execute()
        if r.harness:
            # a fully valid block whose parent is stored ARRIVED and was refused: the head is then not the first-seen block of
            # greatest height among the arrivals
            r.fail("arrival", "valid-arrival-refused", "a fully valid block (parent stored) offered to add_block was refused: %s" % r.harness[0])
        r.oracle()
        if r.fails:
            return r.fails
    return fails


def finalize(m, tier):
    nmax = 8 if tier == "quick" else 10
    want = sum(_fact(k) for k in range(1, nmax + 1))
    got = m["counters"].get("dfs_distinct_states")
    if got != want and not m["failures"]:
        m["errors"].append("exhaustive DFS visited %r distinct states, expected %d" % (got, want))
    return []
