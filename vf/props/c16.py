"""C16 -- Monetary schedule matches the documented parameters (exhaustive over every height with subsidy)."""
import os
import re

import hypothesis
from hypothesis import given, settings, strategies as st

from vf import env
from vf.result import Result

ID = "C16"
LEVEL = "exploration"
RULE = ("every height 0..33,600,000 enumerated (16 contiguous ranges; covers every height with a non-zero subsidy and "
        "two eras beyond), every era boundary k*1,050,000+{-1,0,1} up to 2^32 and around 64 halvings, powers of two up "
        "to 2^64, plus Hypothesis-drawn heights in [0,2^64]; oracle: subsidy_ref(h) = 10^9 >> (h // 1,050,000) "
        "(0 from 64 halvings), monotonicity against the previous height, total = 2,099,999,986,350,000 = MAX_SASHIMI = "
        "documented 20,999,999.8635 coin, validator limit equals it; the reward bound of full validation on both sides of era "
        "boundaries (fabricated bases); 4 threads querying around era boundaries concurrently for 3 s (stress, tiny switch "
        "interval). non-trivial = height with non-zero subsidy or an "
        "era-boundary neighbour; heights are distinct by construction (ranges are disjoint).")
ASSUMPTIONS = ["reference formula written from docs/params.md and the property statement",
               "python integers (no overflow)"]
MIN_NONTRIVIAL = {"quick": 31_000_000, "thorough": 31_000_000}

TOP = 33_600_000
NR = 16
INTERVAL = 1_050_000
TOTAL = 2_099_999_986_350_000


def subsidy_ref(h):
    e = h // INTERVAL
    return 0 if e >= 64 else (1_000_000_000 >> e)


def shards(tier):
    out = [{"kind": "range", "lo": TOP * i // NR, "hi": TOP * (i + 1) // NR} for i in range(NR)]
    out.append({"kind": "boundaries"})
    out.append({"kind": "concurrent"})
    out.append({"kind": "validator"})
    return out


def _check(h, f, res, prev=None):
    got = f(h)
    want = subsidy_ref(h)
    if got != want or type(got) is not int:
        res.fail("subsidy_mismatch", "subsidy!=ref", "get_block_subsidy(%d)=%r, reference %d" % (h, got, want), {"height": h})
    if prev is not None and got > prev:
        res.fail("not_monotone", "subsidy-increases", "subsidy(%d)=%r > subsidy(%d)=%r" % (h, got, h - 1, prev), {"height": h})
    return got


def run(shard, tier, seed):
    env.import_repo()
    import skepticoin.consensus as C
    import skepticoin.params as P
    res = Result()
    f = C.get_block_subsidy
    if shard["kind"] == "concurrent":
        run_concurrent(res, tier, seed)
        return res
    if shard["kind"] == "validator":
        run_validator(res, tier, seed)
        return res
    if shard["kind"] == "range":
        lo, hi = shard["lo"], shard["hi"]
        total = 0
        prev = f(lo - 1) if lo > 0 else None
        nz = 0
        for h in range(lo, hi):
            got = f(h)
            if got != (0 if h >= 67_200_000 else (1_000_000_000 >> (h // INTERVAL))) or (prev is not None and got > prev):
                _check(h, f, res, prev)
            if got:
                nz += 1
            total += got if isinstance(got, int) else 0
            prev = got
        res.evaluations = hi - lo
        res.disjoint = nz
        res.count("sum_subsidy", total)
        res.count("heights_enumerated", hi - lo)
        res.count("heights_nonzero", nz)
        res.exhaustive = True
        res.sample({"height": lo, "subsidy": f(lo)})
        return res

    # boundaries, constants, documentation, random heights
    hs = set()
    for k in range(0, (1 << 32) // INTERVAL + 2):
        for d in (-1, 0, 1):
            hs.add(k * INTERVAL + d)
    for k in (62, 63, 64, 65, 66, 100, 1000, 1 << 20, (1 << 64) // INTERVAL):
        for d in (-1, 0, 1):
            hs.add(k * INTERVAL + d)
    for b in range(0, 65):
        for d in (-1, 0, 1):
            hs.add((1 << b) + d)
    hs = sorted(h for h in hs if 0 <= h <= (1 << 64))
    for h in hs:
        _check(h, f, res, f(h - 1) if h > 0 else None)
        res.evaluations += 1
        if h > TOP:
            res.disjoint += 1
    res.count("boundary_heights", len(hs))
    # zero from the point where halving exhausts it
    first_zero = 30 * INTERVAL
    if f(first_zero - 1) != 1 or f(first_zero) != 0:
        res.fail("exhaustion_point", "first-zero", "subsidy(%d)=%r subsidy(%d)=%r" % (first_zero - 1, f(first_zero - 1), first_zero, f(first_zero)), {"height": first_zero})
    # constants
    consts = {"SASHIMI_PER_COIN": 100_000_000, "INITIAL_SUBSIDY": 1_000_000_000, "SUBSIDY_HALVING_INTERVAL": INTERVAL,
              "MAX_SASHIMI": TOTAL}
    for n, v in consts.items():
        for mod in (P, C):
            if hasattr(mod, n) and getattr(mod, n) != v:
                res.fail("constant", "const:" + n, "%s.%s=%r, documented %r" % (mod.__name__, n, getattr(mod, n), v), {"const": n})
    # validator limit == documented maximum
    for v, ok in ((0, False), (1, True), (TOTAL - 1, True), (TOTAL, True), (TOTAL + 1, False), (-1, False), (1 << 63, False), ((1 << 64) - 1, False)):
        try:
            C.validate_sashimi_range(v)
            got = True
        except C.ValidationError:
            got = False
        res.evaluations += 1
        if got != ok:
            res.fail("range_limit", "sashimi-range", "validate_sashimi_range(%d) accepted=%s expected %s" % (v, got, ok), {"value": v})
    # ... and it is the limit for amounts that ARRIVE (decoded from bytes), not only for amounts built in memory
    from vf import build as b, refmodel as R
    from vf.keys import KEYS
    from skepticoin import datatypes as D
    for v, ok in ((1, True), ((1 << 32), True), ((1 << 48) - 1, True), (1 << 48, True), (3_000_000 * 100_000_000, True), ((1 << 50), True),
                  (TOTAL - 1, True), (TOTAL, True), (TOTAL + 1, False), ((1 << 63) - 1, False), (1 << 63, False), ((1 << 64) - 1, False)):
        for n_out in (1, 2):
            outs = [(v, KEYS[0].pub)] if n_out == 1 else [(1, KEYS[1].pub), (v - 1, KEYS[0].pub)]
            if n_out == 2 and v < 2:
                continue
            t = R.RTx([(R.sha256d(b"c16"), 0, ("sig", KEYS[0].sign(b"c16")))], outs)
            res.evaluations += 1
            try:
                sk = D.Transaction.deserialize(b.to_sk_tx(t).serialize())
                C.validate_non_coinbase_transaction_by_itself(sk)
                got = True
            except Exception:
                got = False
            want = ok if n_out == 1 else (v <= TOTAL)
            if got != want:
                res.fail("range_limit", "decoded-amount-limit", "a transaction with %d output(s) totalling %d sashimi, decoded from its bytes, is %s by the validator (limit %d)" % (
                    n_out, v, "accepted" if got else "refused", TOTAL), {"value": v, "decoded": True})
    # documentation
    doc = os.path.join(env.REPO, "docs", "params.md")
    try:
        txt = open(doc).read()
        m = re.search(r"([\d,]+\.\d+)\s+maximum total amount", txt)
        if m:
            coins = m.group(1).replace(",", "")
            whole, frac = coins.split(".")
            docmax = int(whole) * 100_000_000 + int((frac + "00000000")[:8])
            res.count("doc_max_parsed")
            if docmax != P.MAX_SASHIMI:
                res.fail("doc", "doc-max", "docs/params.md says %s coin = %d sashimi, code MAX_SASHIMI=%d" % (coins, docmax, P.MAX_SASHIMI), {"doc": coins})
        m = re.search(r"([\d,]+) block halving interval", txt)
        if m and int(m.group(1).replace(",", "")) != P.SUBSIDY_HALVING_INTERVAL:
            res.fail("doc", "doc-interval", "documented halving interval %s != %d" % (m.group(1), P.SUBSIDY_HALVING_INTERVAL), {"doc": m.group(1)})
        m = re.search(r"(\d+) coin subsidy", txt)
        if m and int(m.group(1)) * 100_000_000 != P.INITIAL_SUBSIDY:
            res.fail("doc", "doc-subsidy", "documented subsidy %s coin != %d" % (m.group(1), P.INITIAL_SUBSIDY), {"doc": m.group(1)})
    except OSError:
        res.count("doc_missing")

    n_rand = 20_000 if tier == "quick" else 500_000
    bad = []

    @hypothesis.seed(env.subseed(seed, ID, "rand"))
    @settings(max_examples=n_rand, deadline=None, database=None, derandomize=False,
              suppress_health_check=list(hypothesis.HealthCheck), phases=[hypothesis.Phase.generate])
    @given(st.one_of(st.integers(0, 1 << 64), st.integers(0, 70_000_000),
                     st.builds(lambda k, d: max(0, k * INTERVAL + d), st.integers(0, 70), st.integers(-2, 2))))
    def prop(h):
        res.evaluations += 1
        a, b = f(h), f(h + 1)
        if a != subsidy_ref(h) or b > a:
            bad.append(h)
            raise AssertionError(h)

    try:
        prop()
    except AssertionError:
        for h in bad[:1]:
            _check(h, f, res, None)
            _check(h + 1, f, res, f(h))
    res.extra["MAX_SASHIMI_in_code"] = P.MAX_SASHIMI
    res.sample({"height": hs[len(hs) // 2], "subsidy": f(hs[len(hs) // 2])})
    res.sample({"height": 30 * INTERVAL - 1, "subsidy": f(30 * INTERVAL - 1)})
    return res


def run_concurrent(res, tier, seed):
    """several threads ask for subsidies around era boundaries at the same time (validation and block assembly run in
    different threads); every answer must equal the reference.  A stress search: interleavings are forced to be frequent
    (tiny switch interval) but not enumerated."""
    import sys
    import threading
    import time as _time
    env.import_repo()
    import skepticoin.consensus as C
    f = C.get_block_subsidy
    secs = 3.0 if tier == "quick" else 30.0
    old = sys.getswitchinterval()
    sys.setswitchinterval(1e-6)
    bad = []
    counts = [0] * 4
    stop = _time.time() + secs

    def worker(w):
        hs = []
        for k in (1, 2, 3, 29, 30, 31):
            hs += [k * INTERVAL - 1, k * INTERVAL, k * INTERVAL - 1, (k - 1) * INTERVAL, k * INTERVAL + w]
        n = 0
        while _time.time() < stop and not bad:
            for h in hs:
                got = f(h)
                n += 1
                if got != subsidy_ref(h):
                    bad.append((h, got))
                    break
        counts[w] = n

    ts = [threading.Thread(target=worker, args=(w,)) for w in range(4)]
    try:
        for t in ts:
            t.start()
        for t in ts:
            t.join()
    finally:
        sys.setswitchinterval(old)
    res.evaluations += sum(counts)
    res.count("concurrent_subsidy_queries", sum(counts))
    res.disjoint += 2
    if bad:
        h, got = bad[0]
        res.fail("subsidy_mismatch", "subsidy!=ref-under-concurrency", "get_block_subsidy(%d) returned %r (reference %d) while other threads were asking for other eras" % (h, got, subsidy_ref(h)), {"concurrent": h})
    res.sample({"concurrent_threads": 4, "seconds": secs, "queries": sum(counts)})


def run_validator(res, tier, seed):
    """the validator applies the schedule on both sides of every era boundary: on a fabricated base at height k*1,050,000-1
    a reward of exactly subsidy(h) is accepted, subsidy(h)+1 and the previous era's subsidy are refused"""
    import random
    from vf import chainexec, refmodel as R
    eras = [1, 2, 3, 10, 29, 30, 31, 63, 64] if tier == "quick" else list(range(1, 33)) + [63, 64, 65]
    for k in eras:
        for below in (1, 2):
            deep = {"H": INTERVAL * k - below, "tip_ts": 1_700_000_000, "target": (1 << 254).to_bytes(32, "big").hex(), "special": {}}
            ops = [{"label": "a", "parent": "g", "miner": 1, "dt": 100, "txs": [], "reward": {"delta": 1}, "mut": "C02:reward+1"},
                   {"label": "a", "parent": "g", "miner": 1, "dt": 100, "txs": [], "reward": {"delta": subsidy_ref(INTERVAL * k - below) - subsidy_ref(INTERVAL * k - below + 1)}, "mut": "C02:reward_of_previous_era"},
                   {"label": "a", "parent": "g", "miner": 1, "dt": 100, "txs": [], "reward": {"delta": 1, "shape": "split"}, "mut": "C02:reward+1_in_two_outputs"},
                   {"label": "a", "parent": "g", "miner": 1, "dt": 100, "txs": [], "reward": {"delta": 0, "shape": "times3"}, "mut": "C02:reward_three_times"},
                   {"label": "a", "parent": "g", "miner": 1, "dt": 100, "txs": [], "reward": {"delta": 0, "shape": "wrap", "x": 10 ** 14}, "mut": "C02:reward_wraparound", "form": "bytes"},
                   {"label": "a", "parent": "g", "miner": 1, "dt": 100, "txs": []},
                   {"label": "b", "parent": "a", "miner": 2, "dt": 100, "txs": [], "reward": {"delta": 1}, "mut": "C02:reward+1"},
                   {"label": "b", "parent": "a", "miner": 2, "dt": 100, "txs": []}]
            ops = [o for o in ops if not (o.get("mut") == "C02:reward_of_previous_era" and o["reward"]["delta"] == 0)]
            case = {"cfg": [R.REAL_PERIOD, R.REAL_TIMESPAN], "ops": ops, "deep": deep}
            r = chainexec.Run(case, ("C02",))
            fails = r.execute()
            res.evaluations += len(ops)
            res.disjoint += len(ops)
            for fl in fails:
                res.fail(fl["kind"], "validator:" + fl["sig"], "era boundary %d: %s" % (k, fl["msg"]), {"validator_case": case})
            if r.harness:
                res.fail("validator", "validator:scheduled-reward-refused", "era boundary %d: a block claiming exactly the scheduled subsidy was refused: %s" % (k, r.harness[0]), {"validator_case": case})
    res.sample({"validator_at_era_boundaries": eras})


def finalize(m, tier):
    out = []
    if m["counters"].get("heights_enumerated") == TOP and not m["errors"]:
        s = m["counters"].get("sum_subsidy")
        if s != TOTAL:
            out.append({"kind": "total_supply", "sig": "sum!=documented", "case": {"sum": s},
                        "msg": "sum of get_block_subsidy over all heights = %r, documented maximum %d" % (s, TOTAL)})
        code_max = m["extra"].get("MAX_SASHIMI_in_code")
        if code_max is not None and s != code_max:
            out.append({"kind": "total_supply", "sig": "sum!=MAX_SASHIMI", "case": {"sum": s, "max": code_max},
                        "msg": "sum of subsidies %r != MAX_SASHIMI %r" % (s, code_max)})
    return out


def replay(case):
    env.import_repo()
    import skepticoin.consensus as C
    res = Result()
    if "concurrent" in case:
        run_concurrent(res, "quick", 1)
        return res.failures
    if "validator_case" in case:
        from vf import chainexec
        r = chainexec.Run(case["validator_case"], ("C02",))
        out = r.execute()
        return [dict(f, sig="validator:" + f["sig"]) for f in out] + ([{"kind": "validator", "sig": "validator:scheduled-reward-refused", "msg": r.harness[0]}] if r.harness else [])
    if "height" in case:
        h = case["height"]
        _check(h, C.get_block_subsidy, res, C.get_block_subsidy(h - 1) if h > 0 else None)
    elif "value" in case:
        v = case["value"]
        try:
            C.validate_sashimi_range(v)
            got = True
        except C.ValidationError:
            got = False
        if got != (0 < v <= TOTAL):
            res.fail("range_limit", "sashimi-range", "validate_sashimi_range(%d) accepted=%s" % (v, got), case)
    elif "sum" in case:
        s = sum(C.get_block_subsidy(h) for h in range(0, TOP))
        if s != TOTAL:
            res.fail("total_supply", "sum!=documented", "sum=%d" % s, case)
    else:
        r = run({"kind": "boundaries"}, "quick", 1)
        return r.failures
    return res.failures
