"""C17 -- merkle commitment binds the ordered transaction list; inclusion proofs verify."""
import hypothesis
from hypothesis import given, settings, strategies as st

from vf import env, refmodel as R
from vf.result import Result

ID = "C17"
LEVEL = "exploration"
RULE = ("lists of ids (double SHA-256 of distinct payloads): EXHAUSTIVELY all lengths 1..9 (quick) / 1..12 (thorough) with "
        "every position and every single structural edit (substitute each position, swap each pair, every rotation, remove "
        "each position, append a new id, duplicate each position in place and at the end -- in particular duplicating the last "
        "entry), plus Hypothesis lists up to 300 with drawn edit sequences. Oracle: get_merkle_root == reference root; "
        "root(edited) != root(original) unless the lists are equal; for every position get_proof(tree,i).hash() == root "
        "(recomputed independently over the proof structure) and the proof contains a leaf with index i and value list[i]; "
        "calc_merkle_root_hash(transactions) == reference root of their ids; generated valid blocks (1-4 transactions) whose "
        "transaction list is edited under an unchanged header are refused by validate_block_by_itself -- also for the genesis block "
        "(whose id a checkpoint pins) and the recorded real blocks with the real checkpoint table in force, and for edited copies "
        "delivered to a simulated node unsolicited or as an answer to a request (no held block may have a commitment that differs "
        "from the merkle root of its transactions). non-trivial = (list, edit) pair with a different "
        "resulting list, or (list, position) proof; distinct = digest of (length, edit).")
ASSUMPTIONS = ["ids crafted to equal an inner node (hash pre-image) are not generated"]
MIN_NONTRIVIAL = {"quick": 2000, "thorough": 20000}


def ids(n, salt=b""):
    return [R.sha256d(b"leaf%d" % i + salt) for i in range(n)]


def single_edits(lst):
    n = len(lst)
    new = R.sha256d(b"new" + bytes([n]))
    for i in range(n):
        yield ("substitute", i), lst[:i] + [new] + lst[i + 1:]
        yield ("remove", i), lst[:i] + lst[i + 1:]
        yield ("duplicate_in_place", i), lst[:i + 1] + [lst[i]] + lst[i + 1:]
        yield ("duplicate_at_end", i), lst + [lst[i]]
        for j in range(i + 1, n):
            yield ("swap", i, j), lst[:i] + [lst[j]] + lst[i + 1:j] + [lst[i]] + lst[j + 1:]
    for k in range(1, n):
        yield ("rotate", k), lst[k:] + lst[:k]
    yield ("append",), lst + [new]
    yield ("reverse",), lst[::-1]


def proof_hash(node):
    """independent recomputation over the proof structure"""
    if node.children:
        return R.sha256d(b"".join(proof_hash(c) for c in node.children))
    return node.value


def leaves(node):
    if not node.children:
        yield node
    else:
        for c in node.children:
            yield from leaves(c)


def check_list(res, M, lst, tag):
    try:
        root = M.get_merkle_root(list(lst))
    except Exception as e:
        res.fail("root", "root-raised", "get_merkle_root raised %r on %d ids" % (e, len(lst)), {"n": len(lst), "tag": tag})
        return None
    if root != R.merkle_root(lst):
        res.fail("root", "root!=reference", "get_merkle_root of %d ids differs from the reference" % len(lst), {"n": len(lst), "tag": tag})
    return root


def check_proofs(res, M, lst, root, positions):
    tree = M.get_merkle_tree(list(lst))
    if tree.hash() != root:
        res.fail("proof", "tree-root!=root", "get_merkle_tree(...).hash() != get_merkle_root for %d ids" % len(lst), {"n": len(lst)})
    for i in positions:
        res.evaluations += 1
        case = {"n": len(lst), "proof_position": i}
        try:
            pr = M.get_proof(tree, i)
            ph = pr.hash()
        except Exception as e:
            res.fail("proof", "proof-raised", "get_proof(%d of %d) raised %r" % (i, len(lst), e), case)
            continue
        if ph != root or proof_hash(pr) != root:
            res.fail("proof", "proof-hash!=root", "proof for position %d of %d does not reproduce the commitment" % (i, len(lst)), case)
        if not any(l.index == i and l.value == lst[i] for l in leaves(pr)):
            res.fail("proof", "proof-misses-entry", "proof for position %d of %d does not contain the entry" % (i, len(lst)), case)
        res.nontrivial("p%d.%d" % (len(lst), i))


def shards(tier):
    nmax = 9 if tier == "quick" else 12
    return [{"kind": "exh", "n": n} for n in range(1, nmax + 1)] + [{"kind": "rand", "i": i} for i in range(4)] + [{"kind": "blocks", "i": i} for i in range(2)] + [{"kind": "overlap"}, {"kind": "pinned"}, {"kind": "delivery"}]


def block_edits(txs, extra):
    """structural edits of a block's transaction list (header untouched)"""
    n = len(txs)
    yield "substitute_reward", [extra[0]] + txs[1:]
    yield "append", txs + [extra[1]]
    yield "duplicate_last", txs + [txs[-1]]
    for i in range(1, n):
        yield "remove", txs[:i] + txs[i + 1:]
        yield "substitute", txs[:i] + [extra[1]] + txs[i + 1:]
        for j in range(i + 1, n):
            yield "swap", txs[:i] + [txs[j]] + txs[i + 1:j] + [txs[i]] + txs[j + 1:]
    if n > 1:
        yield "reward_only", txs[:1]


def run_overlap(res, tier, seed):
    """two commitment computations overlap (the miner builds a template while the network thread validates a block):
    a second thread computes the commitment of list N while the first is in the middle of computing that of list M.
    Afterwards both (and repeated calls) must still equal the reference."""
    import threading
    from vf import build as b
    from skepticoin import consensus as C
    from vf.keys import KEYS
    n_rounds = 40 if tier == "quick" else 600
    for k in range(n_rounds):
        M_ = [R.RTx([(R.sha256d(b"m%d.%d" % (k, q)), q, ("se",))], [(q + 1, KEYS[q % len(KEYS)].pub)]) for q in range(1 + k % 5)]
        N_ = [R.RTx([(R.sha256d(b"n%d.%d" % (k, q)), q, ("se",))], [(q + 2, KEYS[(q + 1) % len(KEYS)].pub)]) for q in range(1 + (k // 5) % 4)]
        skM, skN = [b.to_sk_tx(t) for t in M_], [b.to_sk_tx(t) for t in N_]
        wantM, wantN = R.merkle_root([t.id() for t in M_]), R.merkle_root([t.id() for t in N_])
        # injection point: the name consensus calls; when the tree has re-arranged that, the hash primitive of the tree code
        from skepticoin import merkletree as MT
        holder, name = (C, "get_merkle_root") if hasattr(C, "get_merkle_root") else (MT, "sha256d")
        orig = getattr(holder, name)
        state = {}

        def hooked(lst):
            if "t" not in state:
                out = {}
                t = threading.Thread(target=lambda: out.setdefault("r", C.calc_merkle_root_hash(skN)))
                t.daemon = True
                state["t"], state["out"] = t, out
                t.start()
                t.join(0.2)
            return orig(lst)

        setattr(holder, name, hooked)
        try:
            gotM = C.calc_merkle_root_hash(skM)
        finally:
            setattr(holder, name, orig)
        if "t" in state:
            state["t"].join(5)
        res.evaluations += 1
        res.nontrivial("overlap%d" % k)
        # afterwards, in both orders (whichever list was computed last may be the one that is remembered wrongly)
        seq = [("N again", skN, wantN), ("M again", skM, wantM), ("N third", skN, wantN)] if k % 2 == 0 else \
              [("M again", skM, wantM), ("N again", skN, wantN), ("M third", skM, wantM)]
        got, want = {"M during": gotM}, {"M during": wantM}
        if "t" in state:   # (a one-element list never reaches the hash primitive: nothing overlapped then)
            got["N overlapped"], want["N overlapped"] = state["out"].get("r"), wantN
        for key, lst, w_ in seq:
            got[key] = C.calc_merkle_root_hash(lst)
            want[key] = w_
        for key in got:
            if got[key] != want[key]:
                res.fail("header_commitment", "commitment-wrong-after-overlapping-computations", "calc_merkle_root_hash returned a wrong commitment (%s) when two computations overlapped" % key,
                         {"n": len(M_), "overlap": k})
                return
    res.sample({"overlapping_commitment_computations": n_rounds})


def run_blocks(res, tier, seed, i):
    """the header commitment check of block validation: a block whose transaction list was edited while its header was
    kept must be refused by validate_block_by_itself (blocks with 1..4 transactions, incl. reward-only blocks)"""
    from vf import chainexec, build as b
    from skepticoin import consensus as C, datatypes as D
    n = 6 if tier == "quick" else 80

    @hypothesis.seed(env.subseed(seed, ID, "blocks", i))
    @settings(max_examples=n, deadline=None, database=None, suppress_health_check=list(hypothesis.HealthCheck), phases=[hypothesis.Phase.generate])
    @given(st.randoms(use_true_random=True), st.sampled_from(chainexec.CFGS[:3]))
    def prop(rnd, cfg):
        case = chainexec.gen_case(rnd, cfg, 8, 0.0, ["C01"], p_tx=0.6)
        r = chainexec.Run(case, ("C17",))
        r.execute()
        from vf.keys import KEYS
        for o in case["ops"]:
            blk = r.world.blocks.get(o["label"])
            if blk is None:
                continue
            alt_cb = R.RTx([(R.NULL32, 0, ("cb", blk.height, b"someone else"))], [(blk.txs[0].outs[0][0] if blk.txs[0].outs else 1, KEYS[(o["miner"] + 1) % len(KEYS)].pub)])
            extra_tx = R.RTx([(R.sha256d(b"x" + blk.id()), 0, ("sig", KEYS[0].sign(b"x")))], [(1, KEYS[1].pub)])
            now = blk.ts + o.get("now_off", 0)
            hdr = b.to_sk_block(blk).header
            try:
                C.validate_block_by_itself(D.Block(hdr, [b.to_sk_tx(t) for t in blk.txs]), now)
            except Exception as e:
                res.error("unedited block refused by validate_block_by_itself: %r" % e)
                continue
            for tag, txs in block_edits(blk.txs, (alt_cb, extra_tx)):
                res.evaluations += 1
                res.count("block_edit:" + tag)
                res.count("block_edits_on_reward_only_blocks" if len(blk.txs) == 1 else "block_edits_on_blocks_with_spends")
                res.nontrivial(env.digest([blk.id().hex(), tag, [t.id().hex()[:12] for t in txs]]))
                try:
                    C.validate_block_by_itself(D.Block(hdr, [b.to_sk_tx(t) for t in txs]), now)
                except Exception:
                    continue
                res.fail("header_commitment", "edited-transaction-list-passes:" + tag,
                         "block with %d transaction(s): transaction list edited (%s) under an unchanged header passes validate_block_by_itself" % (len(blk.txs), tag),
                         {"n": len(blk.txs), "block_case": case, "label": o["label"], "edit": tag})

    prop()
    res.sample({"block_edits": ["substitute_reward", "append", "duplicate_last", "remove", "substitute", "swap", "reward_only"], "on": "generated valid blocks with 1..4 transactions, header unchanged"})


def run_pinned(res, tier, seed):
    """the header commitment check for blocks whose id is PINNED by a built-in checkpoint (the genesis block) and for the
    recorded blocks of the real network, with the real checkpoint table in force: an edited transaction list under the
    genuine header must be refused by validate_block_by_itself and by CoinState.add_block."""
    import json
    import os
    env.use_fast_pow(horizon=163_000)              # real checkpoint table and horizon; scrypt is not reached by these checks
    from skepticoin import consensus as C, datatypes as D
    from skepticoin.coinstate import CoinState
    from vf import build as b
    from vf.keys import KEYS
    data = json.load(open(os.path.join(os.path.dirname(os.path.dirname(os.path.abspath(__file__))), "data", "realblocks.json")))
    raws = [("genesis", bytes.fromhex(data["genesis"]))] + [(n, bytes.fromhex(data["blocks"][n])) for n in sorted(data["blocks"])]
    states = {"empty": CoinState.empty(), "zero": CoinState.zero()}
    for name, raw in raws:
        blk = R.dec_block(raw)[0]
        skb = D.Block.deserialize(raw)
        now = blk.ts + 10
        try:
            C.validate_block_by_itself(skb, now)
        except Exception as e:
            res.error("recorded block %s refused by validate_block_by_itself: %r" % (name, e))
            continue
        extras = []
        for q in range(3):
            alt_cb = R.RTx([(R.NULL32, 0, ("cb", blk.height, b"someone else %d" % q))], [(blk.txs[0].outs[0][0] * (10 ** q), KEYS[q].pub)])
            extra_tx = R.RTx([(blk.txs[0].id(), 0, ("sig", KEYS[0].sign(b"x%d" % q)))], [(1 + q, KEYS[1].pub)])
            extras.append((alt_cb, extra_tx))
        for ex in extras:
            for tag, txs in block_edits(blk.txs, ex):
                res.evaluations += 1
                res.count("pinned_edit:" + tag)
                res.nontrivial(env.digest([blk.id().hex(), tag, [t.id().hex()[:12] for t in txs]]))
                cand = D.Block(skb.header, [b.to_sk_tx(t) for t in txs])
                ok = []
                try:
                    C.validate_block_by_itself(cand, now)
                    ok.append("validate_block_by_itself")
                except Exception:
                    pass
                for sn, cs in states.items():
                    if blk.height == 0 and sn == "zero" or blk.height == 1 and sn == "empty" or blk.height > 1:
                        continue
                    try:
                        cs.add_block(D.Block(skb.header, [b.to_sk_tx(t) for t in txs]), now)
                        ok.append("add_block(%s state)" % sn)
                    except Exception:
                        pass
                if ok:
                    res.fail("header_commitment", "edited-transaction-list-passes-under-pinned-header:" + tag,
                             "recorded block %s (height %d): transaction list edited (%s) under the genuine header passes %s" % (name, blk.height, tag, ", ".join(ok)),
                             {"n": len(blk.txs), "pinned": name, "edit": tag})
    res.sample({"pinned": [n for n, _ in raws], "edits": "substitute_reward / append / duplicate_last under the genuine header, real checkpoint table"})


def run_delivery(res, tier, seed):
    """the same at the node's door: copies of a NEW valid block with an edited transaction list under the genuine header are
    delivered by a peer, unsolicited and as an answer to a request; afterwards every block the node holds must satisfy
    commitment(header) == merkle root of its transaction ids, and the edited copy must not have been adopted."""
    from vf import chainexec, simnet, build as b
    from vf.keys import KEYS
    from skepticoin.networking import messages as M
    simnet.install()
    n = 12 if tier == "quick" else 200

    @hypothesis.seed(env.subseed(seed, ID, "delivery"))
    @settings(max_examples=n, deadline=None, database=None, suppress_health_check=list(hypothesis.HealthCheck), phases=[hypothesis.Phase.generate])
    @given(st.randoms(use_true_random=True), st.sampled_from(chainexec.CFGS[:3]))
    def prop(rnd, cfg):
        case = chainexec.gen_case(rnd, cfg, 6, 0.0, ["C01"], p_tx=0.7, p_twin=0.0)
        case.pop("horizon", None)
        r = chainexec.Run(case, ("C17",))
        r.execute()
        w_ = r.world
        head = w_.uni.head()
        head_label = next(l for l, x in w_.blocks.items() if x.id() == head.id)
        free = sorted((ref, o) for ref, o in head.utxo.items() if any(k.pub == o[1] for k in KEYS))[:rnd.randrange(0, 3)]
        txs = []
        for q, (ref, o) in enumerate(free):
            kk = next(k for k in KEYS if k.pub == o[1])
            t = R.RTx([(ref[0], ref[1], ("se",))], [(o[0], KEYS[(q + 3) % len(KEYS)].pub)])
            t.ins = [(ref[0], ref[1], ("sig", kk.sign(R.signing_message(t))))]
            w_.txs["nxt.t%d" % q] = t.touch()
            txs.append({"copy": "nxt.t%d" % q})
        try:
            nxt = w_.build_block({"label": "nxt", "parent": head_label, "miner": 2, "dt": w_.safe_dt(head, 50), "txs": txs})
        except Exception as e:
            raise env.HarnessError("cannot build the next block: %r" % e)
        if nxt is None:
            return
        alt_cb = R.RTx([(R.NULL32, 0, ("cb", nxt.height, b"someone else"))], [(nxt.txs[0].outs[0][0] * 3, KEYS[5].pub)])
        ref0, o0 = sorted(head.utxo.items())[0]
        extra_tx = R.RTx([(ref0[0], ref0[1], ("sig", KEYS[0].sign(b"junk")))], [(o0[0], KEYS[1].pub)])
        from skepticoin import consensus as C
        for tag, etxs in block_edits(nxt.txs, (alt_cb, extra_tx)):
            for irt in (0, 7, 0.5, 7.5):
                # x.5: the new block's height is a CHECKPOINTED height and its genuine id is the checkpoint (horizon raised to it)
                pinned = irt != int(irt)
                irt = int(irt)
                if pinned:
                    saved = (C.MAX_KNOWN_HASH_HEIGHT, C.KNOWN_HASHES)
                    C.MAX_KNOWN_HASH_HEIGHT, C.KNOWN_HASHES = nxt.height, {nxt.height: nxt.id().hex()}
                    env._sync_checkpoint_table()
                    res.count("delivered_edits_under_a_pinned_header")
                net = simnet.Net()
                simnet.CLOCK.now = nxt.ts + 5
                node = net.add("n", "10.0.0.1", r.cs, 5)
                wire = simnet.Wire(net, node)
                wire.greet()
                cand = R.RBlock(nxt.height, nxt.prev, nxt.merkle, nxt.ts, nxt.target, nxt.nonce, nxt.ev, etxs)
                wire.send(M.DataMessage(M.DATA_BLOCK, b.to_sk_block(cand)), in_response_to=irt)
                wire.deliver()
                res.evaluations += 1
                res.count("delivered_edit:%s:%s" % (tag, "answer" if irt else "unsolicited"))
                res.nontrivial(env.digest([nxt.id().hex(), tag, irt]))
                cs = node.cm.coinstate
                for bid, skb in cs.block_by_hash.items():
                    if bid in r.cs.block_by_hash:
                        continue
                    got = b.from_sk_block(skb)
                    if R.merkle_root([t.id() for t in got.txs]) != got.merkle:
                        res.fail("header_commitment", "node-holds-block-whose-commitment-does-not-match:" + ("answer" if irt else "unsolicited"),
                                 "a copy of a valid block with an edited transaction list (%s) delivered %s was adopted: the node holds block %s whose header commitment is not the merkle root of its transactions" % (
                                     tag, "as an answer (in_response_to != 0)" if irt else "unsolicited", bid.hex()[:16]),
                                 {"n": len(nxt.txs), "delivery": tag, "in_response_to": irt})
                if pinned:
                    C.MAX_KNOWN_HASH_HEIGHT, C.KNOWN_HASHES = saved
                    env._sync_checkpoint_table()

    prop()
    res.sample({"delivery": "edited copies of a new valid block under its genuine header, sent unsolicited and as an answer; invariant on every block the node then holds"})


def run(shard, tier, seed):
    env.import_repo()
    from skepticoin import merkletree as M
    res = Result()
    if shard["kind"] == "pinned":
        run_pinned(res, tier, seed)
        return res
    if shard["kind"] == "delivery":
        env.import_networking()
        run_delivery(res, tier, seed)
        return res
    if shard["kind"] == "blocks":
        run_blocks(res, tier, seed, shard["i"])
        return res
    if shard["kind"] == "overlap":
        env.import_repo()
        run_overlap(res, tier, seed)
        return res
    if shard["kind"] == "exh":
        n = shard["n"]
        lst = ids(n)
        root = check_list(res, M, lst, "orig")
        check_proofs(res, M, lst, root, range(n))
        for tag, ed in single_edits(lst):
            res.evaluations += 1
            if not ed:
                continue
            r2 = check_list(res, M, ed, list(tag))
            res.count("edit:" + tag[0])
            if r2 is not None and tag[0].startswith("duplicate") and len(ed) <= 9:
                # "for every list and every position": also for lists in which an id occurs twice
                check_proofs(res, M, ed, r2, range(len(ed)))
                res.count("proofs_on_lists_with_a_repeated_id", len(ed))
            if ed != lst:
                res.nontrivial("e%d.%s" % (n, ".".join(map(str, tag))))
                if r2 == root:
                    res.fail("collision", "edit-keeps-root:" + tag[0], "list of %d ids: edit %s leaves the commitment unchanged" % (n, tag),
                             {"n": n, "edit": list(tag)})
        if n <= 6:
            same = [lst[0]] * n
            r3 = check_list(res, M, same, ["all_equal"])
            if r3 is not None:
                check_proofs(res, M, same, r3, range(n))
        res.exhaustive = True
        res.sample({"n": n, "edits": ["substitute", "remove", "duplicate_in_place", "duplicate_at_end", "swap", "rotate", "append", "reverse"]})
        return res
    cnt = 300 if tier == "quick" else 10_000

    @hypothesis.seed(env.subseed(seed, ID, shard["i"]))
    @settings(max_examples=cnt, deadline=None, database=None, suppress_health_check=list(hypothesis.HealthCheck), phases=[hypothesis.Phase.generate])
    @given(st.one_of(st.integers(1, 40), st.integers(1, 300)), st.randoms(use_true_random=True), st.binary(max_size=4))
    def prop(n, rnd, salt):
        lst = ids(n, salt)
        root = check_list(res, M, lst, "orig")
        check_proofs(res, M, lst, root, sorted({0, n - 1, rnd.randrange(n), rnd.randrange(n)}))
        cur = list(lst)
        seq = []
        for _ in range(rnd.randrange(1, 4)):
            k = rnd.randrange(6)
            i = rnd.randrange(len(cur))
            j = rnd.randrange(len(cur))
            if k == 0:
                cur[i] = R.sha256d(b"s" + bytes([len(seq)]) + salt)
            elif k == 1:
                cur[i], cur[j] = cur[j], cur[i]
            elif k == 2 and len(cur) > 1:
                del cur[i]
            elif k == 3:
                cur.append(cur[-1])
            elif k == 4:
                cur.insert(i, cur[j])
            else:
                cur = cur[i:] + cur[:i]
            seq.append([k, i, j])
        res.evaluations += 1
        r2 = check_list(res, M, cur, "edited")
        if cur != lst:
            res.nontrivial(env.digest([n, salt.hex(), seq]))
            if r2 == root:
                res.fail("collision", "edit-sequence-keeps-root", "list of %d ids: edit sequence %s leaves the commitment unchanged" % (n, seq),
                         {"n": n, "salt": salt.hex(), "seq": seq})
        # header commitment helper == reference root over the transactions' ids
        from vf import build as b
        from skepticoin import consensus as C
        txs = [R.RTx([(R.sha256d(bytes([t, q]) + salt), q, ("se",)) for q in range(1 + t % 2)], [(t + 1, bytes(64))]) for t in range(min(n, 70))]   # long lists too: the helper is free to treat them differently
        if C.calc_merkle_root_hash([b.to_sk_tx(t) for t in txs]) != R.merkle_root([t.id() for t in txs]):
            res.fail("header_commitment", "calc_merkle_root_hash!=reference", "calc_merkle_root_hash over %d transactions differs" % len(txs), {"n": len(txs), "txs": True})

    prop()
    res.sample({"n": 300, "edit_sequence": [[3, 0, 0]], "meaning": "append a copy of the last id"})
    return res


def replay(case):
    env.import_repo()
    from skepticoin import merkletree as M
    res = Result()
    n = case["n"]
    if "block_case" in case:
        run_blocks(res, "quick", 1, 0)
        return res.failures
    if "overlap" in case:
        run_overlap(res, "quick", 1)
        return res.failures
    if "pinned" in case:
        run_pinned(res, "quick", 1)
        return res.failures
    if "delivery" in case:
        env.import_networking()
        run_delivery(res, "quick", 1)
        return res.failures
    if "proof_position" in case:
        lst = ids(n)
        check_proofs(res, M, lst, M.get_merkle_root(list(lst)), [case["proof_position"]])
    elif "edit" in case:
        lst = ids(n)
        root = M.get_merkle_root(list(lst))
        for tag, ed in single_edits(lst):
            if list(tag) == case["edit"] and ed and ed != lst and M.get_merkle_root(list(ed)) == root:
                res.fail("collision", "edit-keeps-root:" + tag[0], "edit keeps root", case)
    else:
        for k in range(1, n + 1):
            check_list(res, M, ids(k), "orig")
    return res.failures
