"""C17 -- merkle commitment binds the ordered transaction list; inclusion proofs verify."""
import hypothesis
from hypothesis import given, settings, strategies as st

from vf import env, refmodel as R
from vf.result import Result

ID = "C17"
LEVEL = "exploration"
RULE = ("lists of ids (double SHA-256 of distinct payloads): EXHAUSTIVELY all lengths 1..9 (quick) / 1..12 (thorough) with "
        "every position and every single structural edit (substitute each position, swap each pair, every rotation, remove "
        "each position, append a new id, duplicate each position in place and at the end -- in particular duplicating the last "
        "entry), plus Hypothesis lists up to 300 with drawn edit sequences. Oracle: get_merkle_root == reference root; "
        "root(edited) != root(original) unless the lists are equal; for every position get_proof(tree,i).hash() == root "
        "(recomputed independently over the proof structure) and the proof contains a leaf with index i and value list[i]; "
        "calc_merkle_root_hash(transactions) == reference root of their ids; generated valid blocks (1-4 transactions) whose "
        "transaction list is edited under an unchanged header are refused by validate_block_by_itself. non-trivial = (list, edit) pair with a different "
        "resulting list, or (list, position) proof; distinct = digest of (length, edit).")
ASSUMPTIONS = ["ids crafted to equal an inner node (hash pre-image) are not generated"]
MIN_NONTRIVIAL = {"quick": 2000, "thorough": 20000}


def ids(n, salt=b""):
    return [R.sha256d(b"leaf%d" % i + salt) for i in range(n)]


def single_edits(lst):
    n = len(lst)
    new = R.sha256d(b"new" + bytes([n]))
    for i in range(n):
        yield ("substitute", i), lst[:i] + [new] + lst[i + 1:]
        yield ("remove", i), lst[:i] + lst[i + 1:]
        yield ("duplicate_in_place", i), lst[:i + 1] + [lst[i]] + lst[i + 1:]
        yield ("duplicate_at_end", i), lst + [lst[i]]
        for j in range(i + 1, n):
            yield ("swap", i, j), lst[:i] + [lst[j]] + lst[i + 1:j] + [lst[i]] + lst[j + 1:]
    for k in range(1, n):
        yield ("rotate", k), lst[k:] + lst[:k]
    yield ("append",), lst + [new]
    yield ("reverse",), lst[::-1]


def proof_hash(node):
    """independent recomputation over the proof structure"""
    if node.children:
        return R.sha256d(b"".join(proof_hash(c) for c in node.children))
    return node.value


def leaves(node):
    if not node.children:
        yield node
    else:
        for c in node.children:
            yield from leaves(c)


def check_list(res, M, lst, tag):
    try:
        root = M.get_merkle_root(list(lst))
    except Exception as e:
        res.fail("root", "root-raised", "get_merkle_root raised %r on %d ids" % (e, len(lst)), {"n": len(lst), "tag": tag})
        return None
    if root != R.merkle_root(lst):
        res.fail("root", "root!=reference", "get_merkle_root of %d ids differs from the reference" % len(lst), {"n": len(lst), "tag": tag})
    return root


def check_proofs(res, M, lst, root, positions):
    tree = M.get_merkle_tree(list(lst))
    if tree.hash() != root:
        res.fail("proof", "tree-root!=root", "get_merkle_tree(...).hash() != get_merkle_root for %d ids" % len(lst), {"n": len(lst)})
    for i in positions:
        res.evaluations += 1
        case = {"n": len(lst), "proof_position": i}
        try:
            pr = M.get_proof(tree, i)
            ph = pr.hash()
        except Exception as e:
            res.fail("proof", "proof-raised", "get_proof(%d of %d) raised %r" % (i, len(lst), e), case)
            continue
        if ph != root or proof_hash(pr) != root:
            res.fail("proof", "proof-hash!=root", "proof for position %d of %d does not reproduce the commitment" % (i, len(lst)), case)
        if not any(l.index == i and l.value == lst[i] for l in leaves(pr)):
            res.fail("proof", "proof-misses-entry", "proof for position %d of %d does not contain the entry" % (i, len(lst)), case)
        res.nontrivial("p%d.%d" % (len(lst), i))


def shards(tier):
    nmax = 9 if tier == "quick" else 12
    return [{"kind": "exh", "n": n} for n in range(1, nmax + 1)] + [{"kind": "rand", "i": i} for i in range(4)] + [{"kind": "blocks", "i": i} for i in range(2)] + [{"kind": "overlap"}]


def block_edits(txs, extra):
    """structural edits of a block's transaction list (header untouched)"""
    n = len(txs)
    yield "substitute_reward", [extra[0]] + txs[1:]
    yield "append", txs + [extra[1]]
    yield "duplicate_last", txs + [txs[-1]]
    for i in range(1, n):
        yield "remove", txs[:i] + txs[i + 1:]
        yield "substitute", txs[:i] + [extra[1]] + txs[i + 1:]
        for j in range(i + 1, n):
            yield "swap", txs[:i] + [txs[j]] + txs[i + 1:j] + [txs[i]] + txs[j + 1:]
    if n > 1:
        yield "reward_only", txs[:1]


def run_overlap(res, tier, seed):
    """two commitment computations overlap (the miner builds a template while the network thread validates a block):
    a second thread computes the commitment of list N while the first is in the middle of computing that of list M.
    Afterwards both (and repeated calls) must still equal the reference."""
    import threading
    from vf import build as b
    from skepticoin import consensus as C
    from vf.keys import KEYS
    n_rounds = 40 if tier == "quick" else 600
    for k in range(n_rounds):
        M_ = [R.RTx([(R.sha256d(b"m%d.%d" % (k, q)), q, ("se",))], [(q + 1, KEYS[q % len(KEYS)].pub)]) for q in range(1 + k % 5)]
        N_ = [R.RTx([(R.sha256d(b"n%d.%d" % (k, q)), q, ("se",))], [(q + 2, KEYS[(q + 1) % len(KEYS)].pub)]) for q in range(1 + (k // 5) % 4)]
        skM, skN = [b.to_sk_tx(t) for t in M_], [b.to_sk_tx(t) for t in N_]
        wantM, wantN = R.merkle_root([t.id() for t in M_]), R.merkle_root([t.id() for t in N_])
        orig = C.get_merkle_root
        state = {}

        def hooked(lst):
            if "t" not in state:
                out = {}
                t = threading.Thread(target=lambda: out.setdefault("r", C.calc_merkle_root_hash(skN)))
                t.daemon = True
                state["t"], state["out"] = t, out
                t.start()
                t.join(0.2)
            return orig(lst)

        C.get_merkle_root = hooked
        try:
            gotM = C.calc_merkle_root_hash(skM)
        finally:
            C.get_merkle_root = orig
        if "t" in state:
            state["t"].join(5)
        res.evaluations += 1
        res.nontrivial("overlap%d" % k)
        # afterwards, in both orders (whichever list was computed last may be the one that is remembered wrongly)
        seq = [("N again", skN, wantN), ("M again", skM, wantM), ("N third", skN, wantN)] if k % 2 == 0 else \
              [("M again", skM, wantM), ("N again", skN, wantN), ("M third", skM, wantM)]
        got = {"M during": gotM, "N overlapped": state.get("out", {}).get("r")}
        want = {"M during": wantM, "N overlapped": wantN}
        for key, lst, w_ in seq:
            got[key] = C.calc_merkle_root_hash(lst)
            want[key] = w_
        for key in got:
            if got[key] != want[key]:
                res.fail("header_commitment", "commitment-wrong-after-overlapping-computations", "calc_merkle_root_hash returned a wrong commitment (%s) when two computations overlapped" % key,
                         {"n": len(M_), "overlap": k})
                return
    res.sample({"overlapping_commitment_computations": n_rounds})


def run_blocks(res, tier, seed, i):
    """the header commitment check of block validation: a block whose transaction list was edited while its header was
    kept must be refused by validate_block_by_itself (blocks with 1..4 transactions, incl. reward-only blocks)"""
    from vf import chainexec, build as b
    from skepticoin import consensus as C, datatypes as D
    n = 6 if tier == "quick" else 80

    @hypothesis.seed(env.subseed(seed, ID, "blocks", i))
    @settings(max_examples=n, deadline=None, database=None, suppress_health_check=list(hypothesis.HealthCheck), phases=[hypothesis.Phase.generate])
    @given(st.randoms(use_true_random=True), st.sampled_from(chainexec.CFGS[:3]))
    def prop(rnd, cfg):
        case = chainexec.gen_case(rnd, cfg, 8, 0.0, ["C01"], p_tx=0.6)
        r = chainexec.Run(case, ("C17",))
        r.execute()
        from vf.keys import KEYS
        for o in case["ops"]:
            blk = r.world.blocks.get(o["label"])
            if blk is None:
                continue
            alt_cb = R.RTx([(R.NULL32, 0, ("cb", blk.height, b"someone else"))], [(blk.txs[0].outs[0][0] if blk.txs[0].outs else 1, KEYS[(o["miner"] + 1) % len(KEYS)].pub)])
            extra_tx = R.RTx([(R.sha256d(b"x" + blk.id()), 0, ("sig", KEYS[0].sign(b"x")))], [(1, KEYS[1].pub)])
            now = blk.ts + o.get("now_off", 0)
            hdr = b.to_sk_block(blk).header
            try:
                C.validate_block_by_itself(D.Block(hdr, [b.to_sk_tx(t) for t in blk.txs]), now)
            except Exception as e:
                res.error("unedited block refused by validate_block_by_itself: %r" % e)
                continue
            for tag, txs in block_edits(blk.txs, (alt_cb, extra_tx)):
                res.evaluations += 1
                res.count("block_edit:" + tag)
                res.count("block_edits_on_reward_only_blocks" if len(blk.txs) == 1 else "block_edits_on_blocks_with_spends")
                res.nontrivial(env.digest([blk.id().hex(), tag, [t.id().hex()[:12] for t in txs]]))
                try:
                    C.validate_block_by_itself(D.Block(hdr, [b.to_sk_tx(t) for t in txs]), now)
                except Exception:
                    continue
                res.fail("header_commitment", "edited-transaction-list-passes:" + tag,
                         "block with %d transaction(s): transaction list edited (%s) under an unchanged header passes validate_block_by_itself" % (len(blk.txs), tag),
                         {"n": len(blk.txs), "block_case": case, "label": o["label"], "edit": tag})

    prop()
    res.sample({"block_edits": ["substitute_reward", "append", "duplicate_last", "remove", "substitute", "swap", "reward_only"], "on": "generated valid blocks with 1..4 transactions, header unchanged"})


def run(shard, tier, seed):
    env.import_repo()
    from skepticoin import merkletree as M
    res = Result()
    if shard["kind"] == "blocks":
        run_blocks(res, tier, seed, shard["i"])
        return res
    if shard["kind"] == "overlap":
        env.import_repo()
        run_overlap(res, tier, seed)
        return res
    if shard["kind"] == "exh":
        n = shard["n"]
        lst = ids(n)
        root = check_list(res, M, lst, "orig")
        check_proofs(res, M, lst, root, range(n))
        for tag, ed in single_edits(lst):
            res.evaluations += 1
            if not ed:
                continue
            r2 = check_list(res, M, ed, list(tag))
            res.count("edit:" + tag[0])
            if ed != lst:
                res.nontrivial("e%d.%s" % (n, ".".join(map(str, tag))))
                if r2 == root:
                    res.fail("collision", "edit-keeps-root:" + tag[0], "list of %d ids: edit %s leaves the commitment unchanged" % (n, tag),
                             {"n": n, "edit": list(tag)})
        res.exhaustive = True
        res.sample({"n": n, "edits": ["substitute", "remove", "duplicate_in_place", "duplicate_at_end", "swap", "rotate", "append", "reverse"]})
        return res
    cnt = 300 if tier == "quick" else 10_000

    @hypothesis.seed(env.subseed(seed, ID, shard["i"]))
    @settings(max_examples=cnt, deadline=None, database=None, suppress_health_check=list(hypothesis.HealthCheck), phases=[hypothesis.Phase.generate])
    @given(st.one_of(st.integers(1, 40), st.integers(1, 300)), st.randoms(use_true_random=True), st.binary(max_size=4))
    def prop(n, rnd, salt):
        lst = ids(n, salt)
        root = check_list(res, M, lst, "orig")
        check_proofs(res, M, lst, root, sorted({0, n - 1, rnd.randrange(n), rnd.randrange(n)}))
        cur = list(lst)
        seq = []
        for _ in range(rnd.randrange(1, 4)):
            k = rnd.randrange(6)
            i = rnd.randrange(len(cur))
            j = rnd.randrange(len(cur))
            if k == 0:
                cur[i] = R.sha256d(b"s" + bytes([len(seq)]) + salt)
            elif k == 1:
                cur[i], cur[j] = cur[j], cur[i]
            elif k == 2 and len(cur) > 1:
                del cur[i]
            elif k == 3:
                cur.append(cur[-1])
            elif k == 4:
                cur.insert(i, cur[j])
            else:
                cur = cur[i:] + cur[:i]
            seq.append([k, i, j])
        res.evaluations += 1
        r2 = check_list(res, M, cur, "edited")
        if cur != lst:
            res.nontrivial(env.digest([n, salt.hex(), seq]))
            if r2 == root:
                res.fail("collision", "edit-sequence-keeps-root", "list of %d ids: edit sequence %s leaves the commitment unchanged" % (n, seq),
                         {"n": n, "salt": salt.hex(), "seq": seq})
        # header commitment helper == reference root over the transactions' ids
        from vf import build as b
        from skepticoin import consensus as C
        txs = [R.RTx([(R.sha256d(bytes([t, q])), q, ("se",)) for q in range(1 + t % 2)], [(t + 1, bytes(64))]) for t in range(min(n, 7))]
        if C.calc_merkle_root_hash([b.to_sk_tx(t) for t in txs]) != R.merkle_root([t.id() for t in txs]):
            res.fail("header_commitment", "calc_merkle_root_hash!=reference", "calc_merkle_root_hash over %d transactions differs" % len(txs), {"n": len(txs), "txs": True})

    prop()
    res.sample({"n": 300, "edit_sequence": [[3, 0, 0]], "meaning": "append a copy of the last id"})
    return res


def replay(case):
    env.import_repo()
    from skepticoin import merkletree as M
    res = Result()
    n = case["n"]
    if "block_case" in case:
        run_blocks(res, "quick", 1, 0)
        return res.failures
    if "overlap" in case:
        run_overlap(res, "quick", 1)
        return res.failures
    if "proof_position" in case:
        lst = ids(n)
        check_proofs(res, M, lst, M.get_merkle_root(list(lst)), [case["proof_position"]])
    elif "edit" in case:
        lst = ids(n)
        root = M.get_merkle_root(list(lst))
        for tag, ed in single_edits(lst):
            if list(tag) == case["edit"] and ed and ed != lst and M.get_merkle_root(list(ed)) == root:
                res.fail("collision", "edit-keeps-root:" + tag[0], "edit keeps root", case)
    else:
        for k in range(1, n + 1):
            check_list(res, M, ids(k), "orig")
    return res.failures
