"""C07 -- canonical identity: one accepted encoding per value, id = sha256d of it; messages round-trip."""
import io
import os
import subprocess
import sys
import tempfile
from ipaddress import IPv6Address

import hypothesis
from hypothesis import given, settings, strategies as st

from vf import env, refmodel as R
from vf.result import Result, exc_sig

ID = "C07"
LEVEL = "exploration"
RULE = ("(a) values of every consensus type (output reference, signature kinds, input, output, transaction, evidence, "
        "summary, header, block) and every wire message (header + 7 types, all data kinds) from type-directed Hypothesis "
        "strategies over the full field ranges (u32/u64 extremes, heights with bit_length = 0 mod 7, list lengths 0,1,63,64,"
        "127,128, user agents 0..255, reward data over the constructor's accepted range): decode(encode(x)) equals x field "
        "by field (own comparison incl. both height fields) and re-encodes to the same bytes. (b) byte strings offered to the "
        "consensus decoders: valid encodings with structure-aware edits (every VLQ padded, tags altered, counts +-1, "
        "trailing data, byte edits), random bytes, and a coverage-guided atheris campaign; oracle: whenever a decoder returns, "
        "re-encoding == the bytes consumed, and the strict reference decoder agrees. (c) id: tx.hash()==sha256d(serialize()), "
        "block.hash()==sha256d(header.serialize()) for objects decoded from bytes, read back from a BlockStore and built in "
        "memory, and for transactions the wallet signs from a decoded unsigned one; lists as long as the byte limits allow (1001 "
        "inputs / outputs / transactions). non-trivial: (a) value with >=1 list of length >=1 or an extreme field; (b) byte string that DECODES and "
        "differs from the valid encoding it was derived from; distinct = digest of the bytes.")
ASSUMPTIONS = ["messages: direction (a) only (the message header ignores version/reserved bytes by design)",
               "strict reference decoder/encoder in vf/refmodel.py", "atheris campaigns are pinned approximately (-seed, -runs)"]
MIN_NONTRIVIAL = {"quick": 1000, "thorough": 20000}

b32 = st.binary(min_size=32, max_size=32)
b64 = st.binary(min_size=64, max_size=64)
u32 = st.one_of(st.integers(0, 0xFFFFFFFF), st.sampled_from([0, 1, 127, 128, 255, 256, 0xFFFF, 0x10000, 0x7FFFFFFF, 0x80000000, 0xFFFFFFFF]))
u64 = st.one_of(st.integers(0, (1 << 64) - 1), st.sampled_from([0, 1, R.MAX_SASHIMI, R.MAX_SASHIMI + 1, (1 << 63), (1 << 64) - 1]))
heights = st.one_of(st.integers(0, 1 << 21), st.integers(0, 10).flatmap(lambda k: st.integers(-1, 1).map(lambda d: max(0, (1 << (7 * k)) + d))),
                    st.integers(0, 1 << 70))
lens = st.sampled_from([0, 1, 1, 1, 2, 2, 3, 5])
biglens = st.sampled_from([0, 1, 2, 63, 64, 65, 127, 128, 129])


def sig_s(maxdata=255):
    return st.one_of(st.builds(lambda s: ("sig", s), b64),
                     st.builds(lambda h, d: ("cb", h, d), u32, st.one_of(st.binary(max_size=40), st.integers(0, maxdata).map(lambda n: b"d" * n))),
                     st.just(("se",)))


in_s = st.tuples(b32, u32, sig_s())
out_s = st.tuples(u64, b64)


def tx_s(ll=lens):
    return ll.flatmap(lambda a: ll.flatmap(lambda b: st.builds(R.RTx, st.lists(in_s, min_size=a, max_size=a), st.lists(out_s, min_size=b, max_size=b))))


def block_s(ll=lens):
    return st.builds(lambda h, p, m, ts, tg, n, e, txs: R.RBlock(h, p, m, ts, tg, n, e, txs), heights, b32, b32, u32, b32, u32,
                     st.tuples(b32, b32, b32), ll.flatmap(lambda k: st.lists(tx_s(), min_size=k, max_size=k)))


def shards(tier):
    out = [{"kind": "values", "i": i} for i in range(4)] + [{"kind": "bytes", "i": i} for i in range(6)]
    out += [{"kind": "messages", "i": i} for i in range(2)] + [{"kind": "ids", "i": 0}, {"kind": "biglists"}, {"kind": "overlap"}]
    out += [{"kind": "atheris", "i": i, "target": t} for i, t in enumerate(["block", "transaction", "block_seeded"])]
    return out


# ------------------------------------------------------------------ helpers on the code under test

def sk():
    env.import_repo()
    from skepticoin import datatypes as D, signing as S
    from vf import build
    return D, S, build


def plain_tx(b, t):
    p = b.from_sk_tx(t)
    return (tuple(p.ins), tuple(p.outs))


def plain_block(b, blk):
    p = b.from_sk_block(blk)
    return (p.height, p.prev, p.merkle, p.ts, p.target, p.nonce, tuple(p.ev), tuple((tuple(t.ins), tuple(t.outs)) for t in p.txs))


def check_consumed(res, name, cls, data, case, reenc=None):
    """oracle (b)+(c): if the decoder returns, re-encode == consumed bytes, id == sha256d(canonical encoding)"""
    f = io.BytesIO(data)
    try:
        obj = cls.stream_deserialize(f)
    except Exception:
        return None
    consumed = data[:f.tell()]
    try:
        again = obj.serialize()
    except Exception as e:
        res.fail("reencode_raised", "decoded-but-unencodable:" + name, "%s decoded but serialize() raised %r" % (name, e), case)
        return obj
    if again != consumed:
        res.fail("non_canonical", "non-canonical-accepted:" + name,
                 "%s.deserialize accepted %d bytes that re-encode to %d different bytes (first difference at offset %d)" % (
                     name, len(consumed), len(again), next((i for i, (x, y) in enumerate(zip(consumed, again)) if x != y), min(len(consumed), len(again)))), case)
    if hasattr(obj, "hash") and name in ("Transaction", "Block", "BlockHeader", "BlockSummary"):
        canon = again if name != "Block" else obj.header.serialize()
        if obj.hash() != R.sha256d(canon):
            res.fail("id", "id!=sha256d(canonical):" + name, "%s id is not the double SHA-256 of its canonical encoding" % name, case)
    return obj


# ------------------------------------------------------------------ (a) values

def run_values(res, tier, seed, i):
    D, S, b = sk()
    n = 300 if tier == "quick" else 5000

    def roundtrip(name, obj, cls, plain, case):
        res.evaluations += 1
        try:
            enc = obj.serialize()
        except Exception as e:
            res.fail("unencodable", "constructible-but-unencodable:" + name, "%s constructed but serialize() raised %r" % (name, e), case)
            return
        try:
            dec = cls.deserialize(enc)
        except Exception as e:
            res.fail("roundtrip", "roundtrip-decode-raised:" + name, "%s: decode(encode(x)) raised %r" % (name, e), case)
            return
        if plain(dec) != plain(obj):
            res.fail("roundtrip", "roundtrip-changed:" + name, "%s: decode(encode(x)) != x (field comparison)" % name, case)
        if dec.serialize() != enc:
            res.fail("roundtrip", "roundtrip-reencode:" + name, "%s: encode(decode(encode(x))) != encode(x)" % name, case)
        check_consumed(res, name, cls, enc, case)

    @hypothesis.seed(env.subseed(seed, ID, "tx", i))
    @settings(max_examples=n, deadline=None, database=None, suppress_health_check=list(hypothesis.HealthCheck), phases=[hypothesis.Phase.generate])
    @given(tx_s(st.one_of(lens, biglens)))
    def p_tx(t):
        case = {"type": "Transaction", "hex": t.raw().hex()}
        obj = b.to_sk_tx(t)
        roundtrip("Transaction", obj, D.Transaction, lambda o: plain_tx(b, o), case)
        if t.ins or t.outs:
            res.nontrivial(env.digest(case))
        for ri in t.ins[:2]:
            roundtrip("Input", D.Input(D.OutputReference(ri[0], ri[1]), b.to_sk_sig(ri[2])), D.Input,
                      lambda o: (o.output_reference.hash, o.output_reference.index, b.from_sk_sig(o.signature)), case)
            roundtrip("OutputReference", D.OutputReference(ri[0], ri[1]), D.OutputReference, lambda o: (o.hash, o.index), case)
            roundtrip("Signature", b.to_sk_sig(ri[2]), S.Signature, b.from_sk_sig, case)
        for ro in t.outs[:2]:
            roundtrip("Output", D.Output(ro[0], S.SECP256k1PublicKey(ro[1])), D.Output, lambda o: (o.value, o.public_key.public_key), case)
            roundtrip("PublicKey", S.SECP256k1PublicKey(ro[1]), S.PublicKey, lambda o: o.public_key, case)

    @hypothesis.seed(env.subseed(seed, ID, "blk", i))
    @settings(max_examples=n, deadline=None, database=None, suppress_health_check=list(hypothesis.HealthCheck), phases=[hypothesis.Phase.generate])
    @given(block_s())
    def p_blk(blk):
        case = {"type": "Block", "hex": blk.raw().hex()}
        obj = b.to_sk_block(blk)
        roundtrip("Block", obj, D.Block, lambda o: plain_block(b, o), case)
        roundtrip("BlockHeader", obj.header, D.BlockHeader, lambda o: plain_block(b, D.Block(o, []))[:7], case)
        roundtrip("BlockSummary", obj.header.summary, D.BlockSummary,
                  lambda o: (o.height, o.previous_block_hash, o.merkle_root_hash, o.timestamp, o.target, o.nonce), case)
        roundtrip("PowEvidence", obj.header.pow_evidence, D.PowEvidence, lambda o: (o.summary_hash, o.chain_sample, o.block_hash), case)
        res.nontrivial(env.digest(case))

    # the constructor's accepted range for reward data (0..N bytes as the constructor allows)
    @hypothesis.seed(env.subseed(seed, ID, "cb", i))
    @settings(max_examples=n, deadline=None, database=None, suppress_health_check=list(hypothesis.HealthCheck), phases=[hypothesis.Phase.generate])
    @given(u32, st.one_of(st.integers(0, 300), st.sampled_from([0, 199, 200, 201, 254, 255, 256, 257])))
    def p_cb(h, n_):
        case = {"type": "CoinbaseData", "height": h, "len": n_}
        try:
            obj = S.CoinbaseData(h, b"z" * n_)
        except ValueError:
            res.count("cbdata_refused_by_constructor")
            return
        roundtrip("CoinbaseData", obj, S.Signature, b.from_sk_sig, case)
        res.nontrivial(env.digest(case))

    p_tx()
    p_blk()
    p_cb()
    res.sample({"type": "Transaction", "hex": "00" + "00" + "00", "note": "empty lists; others carry lists of length 63/64/127/128"})


# ------------------------------------------------------------------ (b) bytes

def edits(rnd, raw, vlq_offsets):
    """structure-aware edits of a valid encoding -> list of (tag, bytes)"""
    out = []
    for off, ln in vlq_offsets:
        pad = rnd.choice([1, 1, 2, 5])
        out.append(("vlq_padded", raw[:off] + b"\x80" * pad + raw[off:]))
        if ln == 2 and raw[off] == 0x80:                  # the encoder's two-byte form for 64..127 -> minimal form
            out.append(("vlq_minimal", raw[:off] + raw[off + 1:off + 2] + raw[off + 2:]))
        v = raw[off + ln - 1]
        out.append(("count+1", raw[:off + ln - 1] + bytes([(v + 1) & 0x7F]) + raw[off + ln:]))
        if v:
            out.append(("count-1", raw[:off + ln - 1] + bytes([(v - 1) & 0x7F]) + raw[off + ln:]))
    out.append(("trailing", raw + bytes(rnd.randrange(256) for _ in range(rnd.choice([1, 2, 40])))))
    for _ in range(6):
        k = rnd.randrange(len(raw))
        ba = bytearray(raw)
        mode = rnd.randrange(4)
        if mode == 0:
            ba[k] = rnd.randrange(256)
        elif mode == 1:
            ba[k] ^= 1 << rnd.randrange(8)
        elif mode == 2:
            ba.insert(k, rnd.choice([0x80, 0x00, 0x01, 0x02, 0xFF]))
        else:
            del ba[k]
        out.append(("byte_edit", bytes(ba)))
    return out


def vlq_positions_block(blk):
    """(offset, length) of every VLQ in the canonical encoding of an RBlock"""
    pos = []
    off = 1
    pos.append((off, len(R.vlq(blk.height))))
    off = len(blk.header_raw())
    pos.append((off, len(R.vlq(len(blk.txs)))))
    off += len(R.vlq(len(blk.txs)))
    for t in blk.txs:
        pos.extend((off + o, l) for o, l in vlq_positions_tx(t))
        off += len(t.raw())
    return pos


def vlq_positions_tx(t):
    pos = [(1, len(R.vlq(len(t.ins))))]
    off = 1 + len(R.vlq(len(t.ins))) + sum(len(R.enc_in(i)) for i in t.ins)
    pos.append((off, len(R.vlq(len(t.outs)))))
    return pos


def ref_agrees(res, name, data, obj, b, case):
    """differential: the strict reference decoder must accept whatever the code's decoder accepted, with equal fields"""
    try:
        if name == "Block":
            rb, n = R.dec_block(data)
            same = plain_block(b, obj) == (rb.height, rb.prev, rb.merkle, rb.ts, rb.target, rb.nonce, tuple(rb.ev), tuple((tuple(t.ins), tuple(t.outs)) for t in rb.txs))
        else:
            rt = R.dec_tx(R.Reader(data))
            same = plain_tx(b, obj) == (tuple(rt.ins), tuple(rt.outs))
    except R.DecodeError as e:
        res.fail("non_canonical", "reference-decoder-refuses:" + name, "%s accepted by the code, refused by the strict reference decoder (%s)" % (name, e), case)
        return
    if not same:
        res.fail("decode_differs", "decoded-fields-differ:" + name, "%s: code and reference decode different fields" % name, case)


def run_bytes(res, tier, seed, i):
    D, S, b = sk()
    n = 150 if tier == "quick" else 3000

    @hypothesis.seed(env.subseed(seed, ID, "bytes", i))
    @settings(max_examples=n, deadline=None, database=None, suppress_health_check=list(hypothesis.HealthCheck), phases=[hypothesis.Phase.generate])
    @given(block_s(st.sampled_from([1, 1, 2, 3])), st.randoms(use_true_random=True), st.sampled_from([0, 63, 64, 100, 127, 128, 200]))
    def p(blk, rnd, special_h):
        if special_h and rnd.random() < 0.5:
            blk.height = special_h
            blk.touch()
        raw = blk.raw()
        for tag, data in edits(rnd, raw, vlq_positions_block(blk)):
            res.evaluations += 1
            case = {"type": "Block", "edit": tag, "hex": data.hex()}
            obj = check_consumed(res, "Block", D.Block, data, case)
            res.count("block_edit:" + tag)
            if obj is not None:
                res.count("block_decoded:" + tag)
                ref_agrees(res, "Block", data, obj, b, case)
                if data != raw:
                    res.nontrivial(env.digest(case))
        for t in blk.txs[:2]:
            traw = t.raw()
            for tag, data in edits(rnd, traw, vlq_positions_tx(t)):
                res.evaluations += 1
                case = {"type": "Transaction", "edit": tag, "hex": data.hex()}
                obj = check_consumed(res, "Transaction", D.Transaction, data, case)
                res.count("tx_edit:" + tag)
                if obj is not None:
                    res.count("tx_decoded:" + tag)
                    ref_agrees(res, "Transaction", data, obj, b, case)
                    if data != traw:
                        res.nontrivial(env.digest(case))
        h = check_consumed(res, "BlockHeader", D.BlockHeader, blk.header_raw(), {"type": "BlockHeader", "hex": blk.header_raw().hex()})
        hp = b"\x00" + b"\x80" + blk.header_raw()[1:]
        check_consumed(res, "BlockHeader", D.BlockHeader, hp, {"type": "BlockHeader", "edit": "vlq_padded", "hex": hp.hex()})
        check_consumed(res, "BlockSummary", D.BlockSummary, b"\x80" + blk.summary_raw(), {"type": "BlockSummary", "edit": "vlq_padded", "hex": (b"\x80" + blk.summary_raw()).hex()})

    @hypothesis.seed(env.subseed(seed, ID, "rand", i))
    @settings(max_examples=n * 4, deadline=None, database=None, suppress_health_check=list(hypothesis.HealthCheck), phases=[hypothesis.Phase.generate])
    @given(st.binary(max_size=400), st.sampled_from(["Block", "Transaction", "Input", "Output", "Signature", "PublicKey", "OutputReference", "BlockHeader", "BlockSummary", "PowEvidence"]))
    def p_rand(data, name):
        res.evaluations += 1
        cls = getattr(D, name, None) or getattr(S, name)
        case = {"type": name, "edit": "random", "hex": data.hex()}
        obj = check_consumed(res, name, cls, data, case)
        if obj is not None:
            res.count("random_decoded:" + name)

    p()
    p_rand()
    res.sample({"type": "Block", "edit": "vlq_padded", "note": "0x80 inserted in front of the height / a list length"})


# ------------------------------------------------------------------ messages

def msg_fields(m):
    from skepticoin.networking import messages as M
    from vf import build as b
    n = type(m).__name__
    if isinstance(m, M.MessageHeader):
        return (n, m.version, m.timestamp, m.id, m.in_response_to, m.context)
    if isinstance(m, M.HelloMessage):
        return (n, m.version, tuple(v.version for v in m.supported_versions), m.your_ip_address.packed, m.your_port, m.my_ip_address.packed, m.my_port, m.nonce, m.user_agent)
    if isinstance(m, M.GetBlocksMessage):
        return (n, m.version, tuple(m.potential_start_hashes), m.stop_hash)
    if isinstance(m, M.InventoryMessage):
        return (n, m.version, tuple((i.data_type, i.hash) for i in m.items))
    if isinstance(m, M.GetDataMessage):
        return (n, m.version, m.data_type, m.hash)
    if isinstance(m, M.DataMessage):
        if m.data_type == M.DATA_BLOCK:
            d = plain_block(b, m.data)
        elif m.data_type == M.DATA_HEADER:
            from skepticoin.datatypes import Block
            d = plain_block(b, Block(m.data, []))[:7]
        else:
            d = plain_tx(b, m.data)
        return (n, m.version, m.data_type, d)
    if isinstance(m, M.GetPeersMessage):
        return (n, m.version)
    if isinstance(m, M.PeersMessage):
        return (n, m.version, tuple((p.last_seen_at, p.ip_address.packed, p.port) for p in m.peers))
    raise TypeError(n)


def message_s():
    env.import_networking()
    from skepticoin.networking import messages as M
    from vf import build as b
    ip = st.binary(min_size=16, max_size=16).map(IPv6Address)
    u16 = st.one_of(st.integers(0, 0xFFFF), st.sampled_from([0, 1, 255, 256, 2412, 0xFFFF]))
    ll = st.one_of(lens, biglens)
    hello = st.builds(M.HelloMessage, ll.flatmap(lambda k: st.lists(st.integers(0, 255).map(M.SupportedVersion), min_size=k, max_size=k)),
                      ip, u16, ip, u16, u32, st.one_of(st.binary(max_size=30), st.sampled_from([0, 1, 254, 255]).map(lambda n: b"u" * n)))
    getblocks = st.builds(M.GetBlocksMessage, ll.flatmap(lambda k: st.lists(b32, min_size=k, max_size=k)), b32)
    inv = st.builds(M.InventoryMessage, ll.flatmap(lambda k: st.lists(st.builds(M.InventoryItem, st.sampled_from([M.DATA_BLOCK, M.DATA_HEADER, M.DATA_TRANSACTION, b"\x09\x09"]), b32), min_size=k, max_size=k)))
    getdata = st.builds(M.GetDataMessage, st.sampled_from([M.DATA_BLOCK, M.DATA_HEADER, M.DATA_TRANSACTION, b"\xff\x00"]), b32)
    data = st.one_of(block_s().map(lambda r: M.DataMessage(M.DATA_BLOCK, b.to_sk_block(r))),
                     block_s(st.just(0)).map(lambda r: M.DataMessage(M.DATA_HEADER, b.to_sk_block(r).header)),
                     tx_s().map(lambda r: M.DataMessage(M.DATA_TRANSACTION, b.to_sk_tx(r))))
    peers = st.builds(M.PeersMessage, ll.flatmap(lambda k: st.lists(st.builds(M.Peer, u32, ip, u16), min_size=k, max_size=k)))
    return st.one_of(hello, getblocks, inv, getdata, data, st.builds(M.GetPeersMessage), peers)


def run_messages(res, tier, seed, i):
    env.import_networking()
    from skepticoin.networking import messages as M
    n = 600 if tier == "quick" else 8000

    @hypothesis.seed(env.subseed(seed, ID, "msg", i))
    @settings(max_examples=n, deadline=None, database=None, suppress_health_check=list(hypothesis.HealthCheck), phases=[hypothesis.Phase.generate])
    @given(message_s(), st.builds(M.MessageHeader, u32, u32, u32, u64))
    def p(m, hdr):
        res.evaluations += 1
        for obj, cls in ((m, M.Message), (hdr, M.MessageHeader)):
            name = type(obj).__name__
            res.count("msg:" + name)
            try:
                enc = obj.serialize()
                dec = cls.deserialize(enc)
            except Exception as e:
                res.fail("roundtrip", "message-roundtrip-raised:" + name, "%s: encode/decode raised %r" % (name, e), {"type": name, "fields": repr(msg_fields(obj))[:1500]})
                continue
            if type(dec) is not type(obj) or msg_fields(dec) != msg_fields(obj):
                res.fail("roundtrip", "message-roundtrip-changed:" + name, "%s: decode(encode(x)) != x" % name, {"type": name, "hex": enc.hex()})
            elif dec.serialize() != enc:
                res.fail("roundtrip", "message-roundtrip-reencode:" + name, "%s: re-encoding differs" % name, {"type": name, "hex": enc.hex()})
            res.nontrivial(env.digest(enc.hex()))

    p()
    res.sample({"type": "HelloMessage", "note": "user agents 0..255 bytes, version lists of length 0,1,63,64,127,128"})


# ------------------------------------------------------------------ (c) ids three ways

def run_biglists(res, tier, seed):
    """lists as long as the size limit allows (consensus bounds blocks and transactions in BYTES only): transactions with
    999 / 1000 / 1001 / 2700 outputs, 1001 inputs, a block with 1001 transactions -- encode, decode, compare, ids"""
    D, S, b = sk()
    from skepticoin.networking import messages as M
    pk = bytes(range(64))
    cases = []
    for n in (999, 1000, 1001, 2700):
        cases.append(("tx_%d_outputs" % n, R.RTx([(R.sha256d(b"in"), 0, ("sig", bytes(64)))], [(1 + i, pk) for i in range(n)])))
    cases.append(("tx_1001_inputs", R.RTx([(R.sha256d(b"in%d" % i), i, ("sig", bytes(64))) for i in range(1001)], [(5, pk)])))
    # list lengths on both sides of every point where the deployed length encoding changes its width or gains its leading octet
    for n in (62, 63, 64, 65, 126, 127, 128, 129, 255, 256, 8191, 8192, 8193):
        if n <= 2700:
            cases.append(("tx_%d_outputs" % n, R.RTx([(R.sha256d(b"in"), 0, ("sig", bytes(64)))], [(1 + i, pk) for i in range(n)])))
        if n <= 1100:
            cases.append(("tx_%d_inputs" % n, R.RTx([(R.sha256d(b"in%d" % i), i, ("sig", bytes(64))) for i in range(n)], [(5, pk)])))
    for name, t in cases:
        res.evaluations += 1
        res.nontrivial("big:" + name)
        case = {"type": "Transaction", "big": name}
        obj = b.to_sk_tx(t)
        try:
            enc = obj.serialize()
            dec = D.Transaction.deserialize(enc)
            if plain_tx(b, dec) != plain_tx(b, obj) or dec.serialize() != enc or dec.hash() != R.sha256d(enc) or enc != t.raw():
                res.fail("roundtrip", "roundtrip-changed:Transaction:long-list", "%s: decode(encode(x)) != x" % name, case)
            m = M.DataMessage(M.DATA_TRANSACTION, obj)
            if M.Message.deserialize(m.serialize()).serialize() != m.serialize():
                res.fail("roundtrip", "message-roundtrip-changed:DataMessage:long-list", "%s inside a data message does not round-trip" % name, case)
        except Exception as e:
            res.fail("roundtrip", "roundtrip-decode-raised:Transaction:long-list", "%s (%d bytes, within the size limit): encode/decode raised %r" % (name, len(t.raw()), e), case)
    txs = [R.RTx([(R.NULL32, 0, ("cb", 7, b"big"))], [(1, pk)])] + [R.RTx([(R.sha256d(b"x%d" % i), 0, ("sig", bytes(64)))], [(1, pk)]) for i in range(1000)]
    blk = R.RBlock(7, R.sha256d(b"p"), R.merkle_root([t.id() for t in txs]), 9, b"\xff" * 32, 1, (R.NULL32,) * 3, txs)
    res.evaluations += 1
    res.nontrivial("big:block_1001_transactions")
    try:
        enc = b.to_sk_block(blk).serialize()
        dec = D.Block.deserialize(enc)
        if dec.serialize() != enc or enc != blk.raw() or dec.hash() != blk.id() or len(dec.transactions) != 1001:
            res.fail("roundtrip", "roundtrip-changed:Block:long-list", "block with 1001 transactions (%d bytes): decode(encode(x)) != x" % len(enc), {"type": "Block", "big": "1001tx"})
    except Exception as e:
        res.fail("roundtrip", "roundtrip-decode-raised:Block:long-list", "block with 1001 transactions (%d bytes, within the size limit): encode/decode raised %r" % (len(blk.raw()), e), {"type": "Block", "big": "1001tx"})
    for n in (63, 64, 127, 128, 129, 8191, 8192):
        res.evaluations += 1
        res.nontrivial("big:inventory_%d" % n)
        m = M.InventoryMessage([M.InventoryItem(M.DATA_BLOCK, R.sha256d(b"i%d" % i)) for i in range(n)])
        try:
            enc = m.serialize()
            want = M.MSG_INVENTORY + b"\x00" + R.vlq(n) + b"".join(M.DATA_BLOCK + R.sha256d(b"i%d" % i) for i in range(n)) if hasattr(M, "MSG_INVENTORY") else None
            dec = M.Message.deserialize(enc)
            if dec.serialize() != enc or len(dec.items) != n or (want is not None and enc != want):
                res.fail("roundtrip", "message-roundtrip-changed:InventoryMessage:long-list", "inventory with %d items does not round-trip / is not in the deployed encoding" % n, {"type": "InventoryMessage", "big": "inv%d" % n})
        except Exception as e:
            res.fail("roundtrip", "roundtrip-decode-raised:InventoryMessage:long-list", "inventory with %d items: encode/decode raised %r" % (n, e), {"type": "InventoryMessage", "big": "inv%d" % n})
    res.sample({"long_lists": [c[0] for c in cases] + ["block_1001_transactions", "inventories of 63..8192 items"]})


def run_ids(res, tier, seed):
    env.import_networking()
    D, S, b = sk()
    from vf import chainexec
    from skepticoin.blockstore import BlockStore
    n = 6 if tier == "quick" else 60

    @hypothesis.seed(env.subseed(seed, ID, "ids"))
    @settings(max_examples=n, deadline=None, database=None, suppress_health_check=list(hypothesis.HealthCheck), phases=[hypothesis.Phase.generate])
    @given(st.randoms(use_true_random=True), st.sampled_from(chainexec.CFGS[:3]))
    def p(rnd, cfg):
        case = chainexec.gen_case(rnd, cfg, 8, 0.0, ["C01"], p_tx=0.8, zero_rewards=True, p_unusual=0.3, p_copy=0.3, p_same_cb=0.2, p_fork=0.6, p_binary_cbdata=0.4)
        r = chainexec.Run(case, ("C07",))
        r.execute()
        path = os.path.join(env.fresh_subdir("c07"), "c.db")
        with env.quiet():
            store = BlockStore(path)
        blks = [r.world.blocks[o["label"]] for o in case["ops"] if o["label"] in r.world.blocks]
        store.write_blocks_to_disk([b.to_sk_block(x) for x in blks])
        three = {"memory": [b.to_sk_block(x) for x in blks], "bytes": [D.Block.deserialize(x.raw()) for x in blks],
                 "store": [x for x in store.read_blocks_from_disk() if x.height > 0]}
        store.close()
        # the store once more, as a restarted node finds it after a write that stopped half-way (the disk was full at the k-th SQL
        # statement and the process died on the error): whatever it returns then is still subject to "id = hash of the encoding"
        # and "one id, one content"; returning fewer blocks is the store property's business, not this one's
        path2 = os.path.join(env.fresh_subdir("c07f"), "c.db")
        with env.quiet():
            store = BlockStore(path2)
        half = max(1, len(blks) // 2)
        try:
            store.write_blocks_to_disk([b.to_sk_block(x) for x in blks[:half]])
            real = store.connection
            store.connection = chainexec.FaultyConnection(real, rnd.randrange(1, 6))
            try:
                store.write_blocks_to_disk([b.to_sk_block(x) for x in blks[half:]])
            except Exception:
                res.count("ids_store_writes_stopped_half_way")
            store.connection = real
            store.close()
            with env.quiet():
                store = BlockStore(path2)
            three["store-after-failed-write"] = [x for x in store.read_blocks_from_disk() if x.height > 0]
        except Exception as e:
            res.count("ids_store_after_failed_write_unreadable:" + type(e).__name__)
        finally:
            store.close()
        # a fourth way an object comes into being: the wallet signs an UNSIGNED transaction that was itself decoded from bytes
        from skepticoin.wallet import Wallet, sign_transaction
        from vf.keys import KEYS
        w_ = Wallet({k.pub: k.priv for k in KEYS}, [k.pub for k in KEYS], {})
        for x in blks:
            pnode = r.world.uni.nodes[x.prev]
            for t in x.txs[1:]:
                unsigned = R.RTx([(h, i, ("se",)) for (h, i, _s) in t.ins], t.outs)
                try:
                    signed = sign_transaction(w_, {D.OutputReference(k[0], k[1]): D.Output(v[0], S.SECP256k1PublicKey(v[1])) for k, v in pnode.utxo.items()},
                                              D.Transaction.deserialize(unsigned.raw()))
                except Exception as e:
                    res.fail("id", "signing-decoded-transaction-raised", "sign_transaction on a transaction decoded from bytes raised %r" % e, {"ids_case": case, "way": "wallet"})
                    continue
                res.evaluations += 1
                res.count("ids_checked:wallet-signed")
                if signed.hash() != R.sha256d(signed.serialize()):
                    res.fail("id", "id!=sha256d(canonical):Transaction:wallet-signed", "a transaction signed by the wallet (from a decoded unsigned one) reports an id that is not sha256d of its encoding",
                             {"ids_case": case, "way": "wallet"})
        # one id, one content: whichever way an object with a given id was obtained, its canonical encoding is the same
        # (skipped for the store when two written blocks share a transaction id: the recorded store finding C08-F1)
        txids = [t.id() for x in blks for t in x.txs]
        shared = len(set(txids)) != len(txids)
        enc = {}
        for way, lst in three.items():
            if way.startswith("store") and shared:
                res.count("ids_store_comparison_with_a_transaction_id_in_two_blocks")   # (was skipped while C08-F1 was open)
            for blk in lst:
                first = enc.setdefault(blk.hash(), (way, blk.serialize()))
                if first[1] != blk.serialize():
                    res.fail("id", "same-id-different-content:Block:%s-vs-%s" % (first[0], way),
                             "the block known under id %s has one encoding when obtained from %s and another when obtained from %s (%d vs %d bytes)" % (
                                 blk.hash().hex()[:16], first[0], way, len(first[1]), len(blk.serialize())), {"ids_case": case, "way": way})
        for way, lst in three.items():
            for blk in lst:
                res.evaluations += 1
                res.count("ids_checked:" + way)
                cz = {"ids_case": case, "way": way}
                if blk.hash() != R.sha256d(blk.header.serialize()):
                    res.fail("id", "id!=sha256d(canonical):Block:" + way, "block from %s: id is not sha256d(header encoding)" % way, cz)
                for t in blk.transactions:
                    if t.hash() != R.sha256d(t.serialize()):
                        res.fail("id", "id!=sha256d(canonical):Transaction:" + way, "transaction from %s: id is not sha256d(encoding)" % way, cz)
                res.nontrivial(way + blk.hash().hex()[:16])

    p()


def run_overlap(res, tier, seed):
    """Two encodings overlap in time (the networking thread encodes a message while the miner / wallet thread encodes a block):
    while object X is in the middle of serialize() -- at its k-th nested output -- another thread serializes object Y completely.
    Both results (and repeated calls afterwards) must be the canonical encodings.  Schedule injection at a nested encoder;
    the wait for the second thread is bounded and is never a correctness signal."""
    import random
    import threading
    D, S, b = sk()
    from vf import chainexec
    n = 4 if tier == "quick" else 40
    rnd = random.Random(env.subseed(seed, ID, "overlap"))
    for h in range(n):
        case = chainexec.gen_case(random.Random(rnd.randrange(1 << 30)), chainexec.CFGS[0], 6, 0.0, ["C01"], p_tx=0.9, p_unusual=0.3)
        r = chainexec.Run(case, ("C07",))
        r.execute()
        blks = [x for x in r.world.blocks.values()]
        objs = [(x.raw(), b.to_sk_block(x)) for x in blks] + [(t.raw(), b.to_sk_tx(t)) for x in blks for t in x.txs[1:]]
        objs += [(x.header_raw(), b.to_sk_block(x).header) for x in blks[:2]]
        for trial in range(12 if tier == "quick" else 30):
            (wx, X), (wy, Y) = rnd.choice(objs[:-2]), rnd.choice(objs)        # X has outputs (a block or a transaction)
            k = rnd.choice([1, 1, 1, 2, 3])
            orig = D.Output.stream_serialize
            state = {"n": 0}

            def hooked(self, f, _orig=orig, _state=state, _Y=Y):
                _state["n"] += 1
                if _state["n"] == k and "t" not in _state:
                    out = {}
                    t = threading.Thread(target=lambda: out.setdefault("r", _Y.serialize()))
                    t.daemon = True
                    _state["t"], _state["out"] = t, out
                    t.start()
                    t.join(0.5)
                return _orig(self, f)

            D.Output.stream_serialize = hooked
            try:
                gx = X.serialize()
            finally:
                D.Output.stream_serialize = orig
            if "t" in state:
                state["t"].join(5)
            res.evaluations += 1
            if "t" not in state:
                res.count("overlap_not_reached")
                continue
            res.count("overlapping_encodings")
            res.nontrivial("overlap%d.%d" % (h, trial))
            got = {"the interrupted encoding": (gx, wx), "the overlapping encoding": (state["out"].get("r"), wy),
                   "the first object encoded again": (X.serialize(), wx), "the second object encoded again": (Y.serialize(), wy)}
            for what, (g, w_) in got.items():
                if g != w_:
                    res.fail("roundtrip", "encoding-wrong-when-two-encodings-overlap", "%s is not the canonical encoding (%s bytes, expected %d) when a second thread encodes another object at nested output #%d" % (
                        what, len(g) if g is not None else None, len(w_), k), {"overlap": [h, trial]})
                    return
    res.sample({"overlapping_encodings": "a second thread encodes another object while the first is inside serialize()"})


# ------------------------------------------------------------------ atheris

def run_atheris(res, tier, seed, shard):
    secs = 20 if tier == "quick" else 300
    runs = 600_000 if tier == "quick" else 20_000_000
    work = env.fresh_subdir("atheris")
    corpus = os.path.join(work, "corpus")
    os.makedirs(corpus)
    target = shard["target"]
    if target == "block_seeded":
        D, S, b = sk()
        from vf import chainexec
        import random
        case = chainexec.gen_case(random.Random(seed), chainexec.CFGS[0], 6, 0.0, ["C01"], p_tx=0.9)
        r = chainexec.Run(case, ("C07",))
        r.execute()
        for k, blk in enumerate(r.world.blocks.values()):
            open(os.path.join(corpus, "b%d" % k), "wb").write(blk.raw())
    envv = dict(os.environ)
    cmd = [sys.executable, "-m", "vf.fuzz.c07_target", target.split("_")[0], corpus, "-runs=%d" % runs, "-max_total_time=%d" % secs,
           "-seed=%d" % (env.subseed(seed, ID, target) % (1 << 31) or 1), "-max_len=1500", "-artifact_prefix=" + work + "/", "-print_final_stats=1"]
    try:
        p = subprocess.run(cmd, capture_output=True, text=True, env=envv, cwd=work, timeout=secs + 120)
    except subprocess.TimeoutExpired:
        res.count("atheris_timeout")
        return
    out = p.stdout + p.stderr
    if "No module named 'atheris'" in out or "ModuleNotFoundError" in out:
        res.count("atheris_unavailable")
        res.extra["atheris"] = "not installed; hypothesis remains the deciding engine"
        return
    execs = 0
    for ln in out.splitlines():
        if "stat::number_of_executed_units" in ln:
            execs = int(ln.split()[-1])
    res.count("atheris_execs:" + target, execs)
    res.evaluations += execs
    crashes = [f for f in os.listdir(work) if f.startswith("crash-")]
    for c in crashes:
        data = open(os.path.join(work, c), "rb").read()
        sub = Result()
        D, S, b = sk()
        name = "Block" if target.startswith("block") else "Transaction"
        cls = D.Block if name == "Block" else D.Transaction
        case = {"type": name, "edit": "atheris", "hex": data.hex()}
        obj = check_consumed(sub, name, cls, data, case)
        if obj is not None:
            ref_agrees(sub, name, data, obj, b, case)
        if sub.failures:
            for f in sub.failures:
                res.fail(f["kind"], f["sig"], f["msg"], f["case"])
        else:
            res.error("atheris target crashed on an input the oracle accepts: %s\n%s" % (data.hex()[:200], out[-1500:]))
    if p.returncode != 0 and not crashes:
        res.error("atheris exited %d: %s" % (p.returncode, out[-1500:]))
    res.sample({"atheris_target": target, "executions": execs, "seconds": secs})


def run(shard, tier, seed):
    res = Result()
    k = shard["kind"]
    if k == "values":
        run_values(res, tier, seed, shard["i"])
    elif k == "bytes":
        run_bytes(res, tier, seed, shard["i"])
    elif k == "messages":
        run_messages(res, tier, seed, shard["i"])
    elif k == "ids":
        run_ids(res, tier, seed)
    elif k == "biglists":
        run_biglists(res, tier, seed)
    elif k == "overlap":
        run_overlap(res, tier, seed)
    elif k == "atheris":
        run_atheris(res, tier, seed, shard)
    return res


def replay(case):
    res = Result()
    D, S, b = sk()
    if "ids_case" in case:
        run_ids(res, "quick", 1)
        return res.failures
    if "big" in case:
        run_biglists(res, "quick", 1)
        return res.failures
    if "overlap" in case:
        run_overlap(res, "quick", 1)
        return res.failures
    if case.get("type") == "CoinbaseData":
        try:
            obj = S.CoinbaseData(case["height"], b"z" * case["len"])
        except ValueError:
            return []
        try:
            enc = obj.serialize()
            S.Signature.deserialize(enc)
        except Exception as e:
            return [{"kind": "unencodable", "sig": "constructible-but-unencodable:CoinbaseData", "msg": repr(e)}]
        return []
    if "hex" in case:
        data = bytes.fromhex(case["hex"])
        name = case["type"]
        cls = getattr(D, name, None) or getattr(S, name, None)
        if cls is None:
            env.import_networking()
            from skepticoin.networking import messages as M
            cls = M.MessageHeader if name == "MessageHeader" else M.Message
            try:
                dec = cls.deserialize(data)
                if dec.serialize() != data:
                    return [{"kind": "roundtrip", "sig": "message-roundtrip-reencode:" + name, "msg": "re-encoding differs"}]
            except Exception as e:
                return [{"kind": "roundtrip", "sig": "message-roundtrip-raised:" + name, "msg": repr(e)}]
            return []
        obj = check_consumed(res, name, cls, data, case)
        if obj is not None and name in ("Block", "Transaction"):
            ref_agrees(res, name, data, obj, b, case)
        if obj is not None and case.get("edit") is None:
            # a value round trip
            try:
                if cls.deserialize(obj.serialize()).serialize() != obj.serialize():
                    res.fail("roundtrip", "roundtrip-reencode:" + name, "re-encode differs", case)
            except Exception as e:
                res.fail("roundtrip", "roundtrip-decode-raised:" + name, repr(e), case)
    return res.failures
