"""C15 -- wallet keys: faithful file, no key handed out twice, balance, atomic save (crash at every write/rename boundary)."""
import io
import json
import os

import hypothesis
from hypothesis import settings, strategies as st
from hypothesis.stateful import RuleBasedStateMachine, initialize, rule, run_state_machine_as_test

from vf import chainexec, crash, env
from vf.keys import KEYS
from vf.result import Result, exc_sig
from vf.shrink import shrink_list

ID = "C15"
LEVEL = "fault_enumeration"
RULE = ("Hypothesis rule-based state machine over a wallet (fixed + freshly generated keys): generate keys, hand out a key with "
        "an annotation from st.text(), restore a handed-out key, dump/load through StringIO, save_wallet + reload with "
        "Wallet.load and open_or_init_wallet in a private cwd (continuing either with the loaded wallet or with the SAME object, "
        "which is then saved again later), balance query on a generated ledger; for EVERY save_wallet of a "
        "sequence EVERY crash point is enumerated (before/after file creation, before each written chunk, before close, before "
        "and after the rename) in a forked child that is killed there. Model: (key pairs, unused list, annotations, keys handed "
        "out and not restored). Oracle: load(dump(w)) == w field by field; a hand-out while the model's unused list is non-"
        "empty returns a key that is in the wallet and not currently handed out -- also with a save/load in between; balance == "
        "reference sum over all wallet keys; after a crash at any point wallet.json loads and equals the complete previous or the "
        "complete new wallet (absent only if there was no previous one). non-trivial = crash point strictly inside a save "
        "(distinct by construction: (machine, save, step)); sequences with hand-outs on both sides of a save+load are counted.")
ASSUMPTIONS = ["process-crash atomicity (the property's wording); power loss / fsync not modelled",
               "every chunk boundary is a superset of the prefixes a real buffered write can leave"]
MIN_NONTRIVIAL = {"quick": 1000, "thorough": 20000}


def wallet_fields(w):
    return (dict(w.keypairs), list(w.unused_public_keys), dict(w.public_key_annotations))


class Exec:
    def __init__(self, init):
        env.import_networking()
        import skepticoin.wallet as W
        self.W = W
        self.dir = env.fresh_subdir("c15")
        self.cwd = os.getcwd()
        os.chdir(self.dir)
        ks = [KEYS[i] for i in init["keys"]]
        self.w = W.Wallet({k.pub: k.priv for k in ks}, [k.pub for k in ks], {})
        self.out = set()                  # handed out and not restored
        self.fails = []
        self.crash_points = 0
        self.inner_points = 0
        self.flags = {"handout_before_saveload": False, "saveload_seen": False, "handout_both_sides": False}
        self.ledger = None
        self.init = init

    def close(self):
        os.chdir(self.cwd)

    def fail(self, kind, sig, msg):
        if not any(f["sig"] == sig for f in self.fails):
            self.fails.append({"kind": kind, "sig": sig, "msg": msg})

    def check_same(self, a, b, what):
        fa, fb = wallet_fields(a), wallet_fields(b)
        names = ["key pairs", "unused keys", "annotations"]
        for n, x, y in zip(names, fa, fb):
            if x != y:
                self.fail("file", "reload-differs:" + n, "%s: %s differ after %s" % (what, n, what))

    def step(self, op):
        W = self.W
        w = self.w
        k = op[0]
        if k == "generate":
            for _ in range(op[1]):
                w.generate_key()
        elif k == "handout":
            had_unused = len(w.unused_public_keys) > 0
            if not had_unused and not w.keypairs:
                return
            before_out = set(self.out)
            with env.quiet():
                pk = w.get_annotated_public_key(op[1])
            if had_unused:
                if pk not in w.keypairs:
                    self.fail("handout", "handed-out-key-not-in-wallet", "get_annotated_public_key returned a key the wallet has no private key for")
                if pk in before_out:
                    self.fail("handout", "key-handed-out-twice", "a key that is still handed out was handed out again while %d unused keys remained" % (len(w.unused_public_keys) + 1))
                if w.public_key_annotations.get(pk) != op[1]:
                    self.fail("handout", "annotation-lost", "annotation of the handed-out key not recorded")
                self.out.add(pk)
                if self.flags["saveload_seen"] and self.flags["handout_before_saveload"]:
                    self.flags["handout_both_sides"] = True
                if not self.flags["saveload_seen"]:
                    self.flags["handout_before_saveload"] = True
        elif k == "restore":
            cands = sorted(self.out)
            if not cands:
                return
            pk = cands[op[1] % len(cands)]
            ann = w.public_key_annotations.get(pk, "")
            w.restore_annotated_public_key(pk, ann)
            self.out.discard(pk)
            if pk not in w.unused_public_keys or pk in w.public_key_annotations:
                self.fail("restore", "restore-incomplete", "restored key is not unused again / still annotated")
        elif k == "dumpload":
            f = io.StringIO()
            w.dump(f)
            f.seek(0)
            w2 = W.Wallet.load(f)
            self.check_same(w, w2, "dump+load")
            if not (len(op) > 1 and op[1]):
                self.w = w2
            self.flags["saveload_seen"] = True
        elif k == "saveload":
            old = None
            if os.path.exists("wallet.json"):
                old = W.Wallet.load(open("wallet.json"))
            if op[1] and len(w.keypairs) <= 12:
                self.crash_save(old)
            W.save_wallet(w)
            if op[2]:
                from skepticoin.scripts.utils import open_or_init_wallet
                w2 = open_or_init_wallet()
            else:
                with open("wallet.json") as fh:
                    w2 = W.Wallet.load(fh)
            self.check_same(w, w2, "save_wallet+load")
            if not (len(op) > 3 and op[3]):
                self.w = w2                   # continue with the loaded wallet (a new process), else with the SAME object
            else:
                self.flags["same_object_saved_again"] = self.flags.get("same_object_saved_again", 0) + 1
            self.flags["saveload_seen"] = True
        elif k == "balance":
            if self.ledger is None:
                import random
                case = chainexec.gen_case(random.Random(self.init.get("hist_seed", 1)), chainexec.CFGS[0], 7, 0.0, ["C01"], p_tx=0.8)
                r = chainexec.Run(case, ("C15",))
                r.execute()
                self.ledger = r
            r = self.ledger
            head = r.world.uni.nodes[r.cs.current_chain_hash]
            want = sum(v for (v, pk) in head.utxo.values() if pk in w.keypairs)
            got = w.get_balance(r.cs)
            if got != want:
                self.fail("balance", "balance!=reference", "get_balance=%d, reference total over all wallet keys=%d" % (got, want))

    def crash_save(self, old):
        W = self.W
        w = self.w
        new_fields = wallet_fields(w)
        old_fields = wallet_fields(old) if old is not None else None

        def inspect(kstep):
            self.crash_points += 1
            if not os.path.exists("wallet.json"):
                if old is not None:
                    self.fail("crash", "crash-loses-wallet-file", "crash at step %d of save_wallet: wallet.json is gone" % kstep)
                return
            try:
                with open("wallet.json") as fh:
                    got = wallet_fields(W.Wallet.load(fh))
            except Exception as e:
                self.fail("crash", "crash-leaves-unloadable-file", "crash at step %d of save_wallet: wallet.json does not load (%s)" % (kstep, type(e).__name__))
                return
            if got != new_fields and got != old_fields:
                self.fail("crash", "crash-leaves-mixed-file", "crash at step %d of save_wallet: wallet.json is neither the previous nor the new wallet" % kstep)

        snapshot = {n: open(n, "rb").read() for n in os.listdir(".") if os.path.isfile(n)}

        def inspect_and_restore(kstep):
            inspect(kstep)
            for n in os.listdir("."):
                if os.path.isfile(n):
                    os.remove(n)
            for n, data in snapshot.items():
                open(n, "wb").write(data)

        total = crash.crash_points(W, lambda: W.save_wallet(w), inspect_and_restore)
        total += crash.crash_points(W, lambda: W.save_wallet(w), inspect_and_restore, buffered=True)
        self.inner_points += max(0, total - 4)


class Machine(RuleBasedStateMachine):
    res = None
    found = None

    def __init__(self):
        super().__init__()
        self.ex = None
        self.ops = []
        self.dead = False

    @initialize(keys=st.lists(st.integers(0, len(KEYS) - 1), min_size=0, max_size=5, unique=True), hist_seed=st.integers(0, 1000))
    def setup(self, keys, hist_seed):
        self.init = {"keys": keys, "hist_seed": hist_seed}
        self.ex = Exec(self.init)

    def do(self, op):
        if self.dead or self.ex is None:
            return
        self.ops.append(op)
        Machine.res.evaluations += 1
        try:
            self.ex.step(op)
        except env.HarnessError:
            raise
        except Exception as e:
            if exc_sig(e).endswith("@None"):          # raised by the harness itself (no frame of the code under test)
                Machine.res.error("executor raised %r" % (e,))
                self.dead = True
            else:
                self.ex.fail("exception", "exc:" + exc_sig(e), "op %s raised %r" % (op[0], e))
        if self.ex.fails:
            self.dead = True

    @rule(n=st.integers(1, 3))
    def generate(self, n):
        self.do(["generate", n])

    @rule(a=st.one_of(st.text(max_size=12), st.sampled_from(["change", "reserved for potentially mined block", "", "é中\"\\"])))
    def handout(self, a):
        self.do(["handout", a])

    @rule(i=st.integers(0, 50))
    def restore(self, i):
        self.do(["restore", i])

    @rule(keep_object=st.booleans())
    def dumpload(self, keep_object):
        self.do(["dumpload", keep_object])

    @rule(crash_=st.sampled_from([True, False, False]), via_script=st.booleans(), keep_object=st.booleans())
    def saveload(self, crash_, via_script, keep_object):
        self.do(["saveload", crash_, via_script, keep_object])

    @rule()
    def balance(self):
        self.do(["balance"])

    def teardown(self):
        if self.ex is None:
            return
        self.ex.close()
        res = Machine.res
        case = {"init": self.init, "ops": self.ops}
        res.count("machines")
        res.count("crash_points", self.ex.crash_points)
        res.disjoint += self.ex.inner_points
        res.evaluations += self.ex.crash_points
        if self.ex.flags["handout_both_sides"]:
            res.count("machines_handout_both_sides_of_saveload")
        if res.counters["machines"] in (3, 12):
            res.sample(case)
        for f in self.ex.fails:
            if f["sig"] not in Machine.found:
                Machine.found[f["sig"]] = (f, case)


def execute(case):
    ex = Exec(case["init"])
    try:
        for op in case["ops"]:
            try:
                ex.step(op)
            except Exception as e:
                ex.fail("exception", "exc:" + exc_sig(e), "op %s raised %r" % (op[0], e))
            if ex.fails:
                break
    finally:
        ex.close()
    return ex.fails


def shards(tier):
    return [{"kind": "sm", "i": i} for i in range(16)]


def run(shard, tier, seed):
    res = Result()
    Machine.res = res
    Machine.found = {}
    n = 25 if tier == "quick" else 500
    steps = 26 if tier == "quick" else 40
    run_state_machine_as_test(
        hypothesis.seed(env.subseed(seed, ID, shard["i"]))(Machine),
        settings=settings(max_examples=n, stateful_step_count=steps, deadline=None, database=None,
                          suppress_health_check=list(hypothesis.HealthCheck), phases=[hypothesis.Phase.generate]))
    for sig, (f, case) in Machine.found.items():
        def still(ops):
            return any(x["sig"] == sig for x in execute({"init": case["init"], "ops": ops}))
        ops = shrink_list(case["ops"], still, 20)
        res.fail(f["kind"], sig, f["msg"], {"init": case["init"], "ops": ops})
    return res


def replay(case):
    return execute(case)
