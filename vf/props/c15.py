"""C15 -- wallet keys: faithful file, no key handed out twice, balance, atomic save (crash at every write/rename boundary)."""
import io
import json
import os

import hypothesis
from hypothesis import given, settings, strategies as st
from hypothesis.stateful import RuleBasedStateMachine, initialize, rule, run_state_machine_as_test

from vf import chainexec, crash, env
from vf.keys import KEYS
from vf.result import Result, exc_sig
from vf.shrink import shrink_list

ID = "C15"
LEVEL = "fault_enumeration"
RULE = ("Hypothesis rule-based state machine over a wallet (fixed + freshly generated keys): generate keys, hand out a key with "
        "an annotation from st.text(), restore a handed-out key, dump/load through StringIO, save_wallet + reload with "
        "Wallet.load and open_or_init_wallet in a private cwd (continuing either with the loaded wallet or with the SAME object, "
        "which is then saved again later), the receive SCRIPT run as the next process on the saved file, balance query on a generated ledger; for EVERY save_wallet of a "
        "sequence EVERY crash point is enumerated (before/after file creation, before each written chunk, before close, before "
        "and after the rename) in a forked child that is killed there. Model: (key pairs, unused list, annotations, keys handed "
        "out and not restored). Oracle: load(dump(w)) == w field by field; a hand-out while the model's unused list is non-"
        "empty returns a key that is in the wallet and not currently handed out -- also with a save/load in between; balance == "
        "reference sum over all wallet keys; after a crash at any point wallet.json loads and equals the complete previous or the "
        "complete new wallet (absent only if there was no previous one), also after the next start through open_or_init_wallet, and the next "
        "save in that directory (with whatever the crashed save left behind) again yields exactly the saved wallet. non-trivial = crash point strictly inside a save "
        "(distinct by construction: (machine, save, step)); sequences with hand-outs on both sides of a save+load are counted. "
        "miner_sessions: 2-3 runs of the real MinerWatcher.__call__ (start-up, 0-2 finds, a full disk injected at a chosen find, "
        "Ctrl-C and the shutdown path) over one wallet.json against a simulated node: no session may hand out a key that already "
        "received the reward of a mined block.")
ASSUMPTIONS = ["process-crash atomicity (the property's wording); power loss / fsync not modelled",
               "every chunk boundary is a superset of the prefixes a real buffered write can leave"]
MIN_NONTRIVIAL = {"quick": 1000, "thorough": 20000}


def wallet_fields(w):
    return (dict(w.keypairs), list(w.unused_public_keys), dict(w.public_key_annotations))


class Exec:
    def __init__(self, init):
        env.import_networking()
        import skepticoin.wallet as W
        self.W = W
        self.dir = env.fresh_subdir("c15")
        self.cwd = os.getcwd()
        os.chdir(self.dir)
        ks = [KEYS[i] for i in init["keys"]]
        self.w = W.Wallet({k.pub: k.priv for k in ks}, [k.pub for k in ks], {})
        self.out = set()                  # handed out and not restored
        self.fails = []
        self.crash_points = 0
        self.inner_points = 0
        self.flags = {"handout_before_saveload": False, "saveload_seen": False, "handout_both_sides": False}
        self.ledger = None
        self.init = init

    def close(self):
        os.chdir(self.cwd)

    def fail(self, kind, sig, msg):
        if not any(f["sig"] == sig for f in self.fails):
            self.fails.append({"kind": kind, "sig": sig, "msg": msg})

    def check_same(self, a, b, what):
        fa, fb = wallet_fields(a), wallet_fields(b)
        names = ["key pairs", "unused keys", "annotations"]
        for n, x, y in zip(names, fa, fb):
            if x != y:
                self.fail("file", "reload-differs:" + n, "%s: %s differ after %s" % (what, n, what))

    def step(self, op):
        W = self.W
        w = self.w
        k = op[0]
        if k == "generate":
            for _ in range(op[1]):
                w.generate_key()
        elif k == "handout":
            had_unused = len(w.unused_public_keys) > 0
            if not had_unused and not w.keypairs:
                return
            before_out = set(self.out)
            with env.quiet():
                pk = w.get_annotated_public_key(op[1])
            if had_unused:
                if pk not in w.keypairs:
                    self.fail("handout", "handed-out-key-not-in-wallet", "get_annotated_public_key returned a key the wallet has no private key for")
                if pk in before_out:
                    self.fail("handout", "key-handed-out-twice", "a key that is still handed out was handed out again while %d unused keys remained" % (len(w.unused_public_keys) + 1))
                if w.public_key_annotations.get(pk) != op[1]:
                    self.fail("handout", "annotation-lost", "annotation of the handed-out key not recorded")
                self.out.add(pk)
                if self.flags["saveload_seen"] and self.flags["handout_before_saveload"]:
                    self.flags["handout_both_sides"] = True
                if not self.flags["saveload_seen"]:
                    self.flags["handout_before_saveload"] = True
        elif k == "receive_script":
            # the command-line path: `skepticoin-receive <annotation>` run as the NEXT process on the saved wallet file
            import sys
            from skepticoin.scripts import receive
            W.save_wallet(w)
            had_unused = len(w.unused_public_keys) > 0
            if not had_unused:
                return
            before_out = set(self.out)
            argv, out = sys.argv, io.StringIO()
            sys.argv = ["skepticoin-receive", op[1]]
            old_stdout = sys.stdout
            sys.stdout = out
            try:
                receive.main()
            finally:
                sys.argv, sys.stdout = argv, old_stdout
            line = [l for l in out.getvalue().splitlines() if l.startswith("SKE") and l.endswith("PTI")]
            if len(line) != 1:
                self.fail("handout", "receive-script-printed-no-address", "the receive script printed %d addresses" % len(line))
                return
            pk = bytes.fromhex(line[0][3:-3])
            with open("wallet.json") as fh:
                w2 = W.Wallet.load(fh)
            if pk not in w2.keypairs or pk not in w.keypairs:
                self.fail("handout", "handed-out-key-not-in-wallet", "the receive script printed an address the wallet has no private key for")
            if pk in before_out:
                self.fail("handout", "key-handed-out-twice", "the receive script handed out a key that is still handed out (%d unused keys remained)" % len(w.unused_public_keys))
            if pk in w2.unused_public_keys or w2.public_key_annotations.get(pk) != op[1]:
                self.fail("handout", "receive-script-hand-out-not-saved", "after the receive script the wallet file does not record the hand-out (the next run would hand out the same key)")
            self.out.add(pk)
            self.w = w2
            self.flags["receive_script_runs"] = self.flags.get("receive_script_runs", 0) + 1
            self.flags["saveload_seen"] = True
        elif k == "restore":
            cands = sorted(self.out)
            if not cands:
                return
            pk = cands[op[1] % len(cands)]
            ann = w.public_key_annotations.get(pk, "")
            w.restore_annotated_public_key(pk, ann)
            self.out.discard(pk)
            if pk not in w.unused_public_keys or pk in w.public_key_annotations:
                self.fail("restore", "restore-incomplete", "restored key is not unused again / still annotated")
        elif k == "dumpload":
            f = io.StringIO()
            w.dump(f)
            f.seek(0)
            w2 = W.Wallet.load(f)
            self.check_same(w, w2, "dump+load")
            if not (len(op) > 1 and op[1]):
                self.w = w2
            self.flags["saveload_seen"] = True
        elif k == "saveload":
            old = None
            if os.path.exists("wallet.json"):
                old = W.Wallet.load(open("wallet.json"))
            if op[1] and len(w.keypairs) <= 12:
                self.crash_save(old)
            W.save_wallet(w)
            if op[2]:
                from skepticoin.scripts.utils import open_or_init_wallet
                w2 = open_or_init_wallet()
            else:
                with open("wallet.json") as fh:
                    w2 = W.Wallet.load(fh)
            self.check_same(w, w2, "save_wallet+load")
            if not (len(op) > 3 and op[3]):
                self.w = w2                   # continue with the loaded wallet (a new process), else with the SAME object
            else:
                self.flags["same_object_saved_again"] = self.flags.get("same_object_saved_again", 0) + 1
            self.flags["saveload_seen"] = True
        elif k == "balance":
            if self.ledger is None:
                import random
                case = chainexec.gen_case(random.Random(self.init.get("hist_seed", 1)), chainexec.CFGS[0], 7, 0.0, ["C01"], p_tx=0.8)
                r = chainexec.Run(case, ("C15",))
                r.execute()
                self.ledger = r
            r = self.ledger
            head = r.world.uni.nodes[r.cs.current_chain_hash]
            want = sum(v for (v, pk) in head.utxo.values() if pk in w.keypairs)
            got = w.get_balance(r.cs)
            if got != want:
                self.fail("balance", "balance!=reference", "get_balance=%d, reference total over all wallet keys=%d" % (got, want))

    def crash_save(self, old):
        W = self.W
        w = self.w
        new_fields = wallet_fields(w)
        old_fields = wallet_fields(old) if old is not None else None

        def inspect(kstep):
            self.crash_points += 1
            if not os.path.exists("wallet.json"):
                if old is not None:
                    self.fail("crash", "crash-loses-wallet-file", "crash at step %d of save_wallet: wallet.json is gone" % kstep)
                return
            try:
                with open("wallet.json") as fh:
                    got = wallet_fields(W.Wallet.load(fh))
            except Exception as e:
                self.fail("crash", "crash-leaves-unloadable-file", "crash at step %d of save_wallet: wallet.json does not load (%s)" % (kstep, type(e).__name__))
                return
            if got != new_fields and got != old_fields:
                self.fail("crash", "crash-leaves-mixed-file", "crash at step %d of save_wallet: wallet.json is neither the previous nor the new wallet" % kstep)
                return
            # ... and the NEXT START (every script opens the wallet through open_or_init_wallet) still finds a complete wallet
            from skepticoin.scripts.utils import open_or_init_wallet
            try:
                with env.quiet():
                    w3 = open_or_init_wallet()
                got3 = wallet_fields(w3)
                with open("wallet.json") as fh:
                    got4 = wallet_fields(W.Wallet.load(fh))
            except Exception as e:
                self.fail("crash", "restart-after-crash-finds-no-loadable-wallet", "crash at step %d of save_wallet, then the next start: opening the wallet raises %s" % (kstep, type(e).__name__))
                return
            self.flags["restarts_after_crash"] = self.flags.get("restarts_after_crash", 0) + 1
            if (got3 != new_fields and got3 != old_fields) or (got4 != new_fields and got4 != old_fields):
                self.fail("crash", "restart-after-crash-finds-mixed-wallet", "crash at step %d of save_wallet, then the next start: the wallet is neither the previous nor the new one" % kstep)
                return
            # ... and the NEXT SAVE in that directory (whatever the crashed save left behind is still lying there) produces a
            # complete wallet file again: first the wallet as loaded, then a shorter one (a hand-out taken back)
            for variant in ("as loaded", "shorter"):
                if variant == "shorter":
                    ann = sorted(w3.public_key_annotations)
                    if not ann:
                        break
                    w3.restore_annotated_public_key(ann[0], w3.public_key_annotations[ann[0]])
                want = wallet_fields(w3)
                try:
                    W.save_wallet(w3)
                    with open("wallet.json") as fh:
                        got5 = wallet_fields(W.Wallet.load(fh))
                except Exception as e:
                    self.fail("crash", "save-after-crash-leaves-unloadable-file", "crash at step %d of save_wallet, restart, then the next save (wallet %s): wallet.json does not load (%s)" % (kstep, variant, type(e).__name__))
                    return
                if got5 != want:
                    self.fail("crash", "save-after-crash-leaves-wrong-wallet", "crash at step %d of save_wallet, restart, then the next save (wallet %s): wallet.json is not the wallet that was saved" % (kstep, variant))
                    return
            self.flags["saves_after_crash"] = self.flags.get("saves_after_crash", 0) + 1

        snapshot = {n: open(n, "rb").read() for n in os.listdir(".") if os.path.isfile(n)}

        def inspect_and_restore(kstep):
            inspect(kstep)
            for n in os.listdir("."):
                if os.path.isfile(n):
                    os.remove(n)
            for n, data in snapshot.items():
                open(n, "wb").write(data)

        total = crash.crash_points(W, lambda: W.save_wallet(w), inspect_and_restore)
        total += crash.crash_points(W, lambda: W.save_wallet(w), inspect_and_restore, buffered=True)
        self.inner_points += max(0, total - 4)


class Machine(RuleBasedStateMachine):
    res = None
    found = None

    def __init__(self):
        super().__init__()
        self.ex = None
        self.ops = []
        self.dead = False

    @initialize(keys=st.lists(st.integers(0, len(KEYS) - 1), min_size=0, max_size=5, unique=True), hist_seed=st.integers(0, 1000))
    def setup(self, keys, hist_seed):
        self.init = {"keys": keys, "hist_seed": hist_seed}
        self.ex = Exec(self.init)

    def do(self, op):
        if self.dead or self.ex is None:
            return
        self.ops.append(op)
        Machine.res.evaluations += 1
        try:
            self.ex.step(op)
        except env.HarnessError:
            raise
        except Exception as e:
            if exc_sig(e).endswith("@None"):          # raised by the harness itself (no frame of the code under test)
                Machine.res.error("executor raised %r" % (e,))
                self.dead = True
            else:
                self.ex.fail("exception", "exc:" + exc_sig(e), "op %s raised %r" % (op[0], e))
        if self.ex.fails:
            self.dead = True

    @rule(n=st.integers(1, 3))
    def generate(self, n):
        self.do(["generate", n])

    @rule(a=st.one_of(st.text(max_size=12), st.sampled_from(["change", "reserved for potentially mined block", "", "é中\"\\"])))
    def handout(self, a):
        self.do(["handout", a])

    @rule(a=st.sampled_from(["rent", "from bob", "x", "reserved for potentially mined block", "é中"]))
    def receive_script(self, a):
        self.do(["receive_script", a])

    @rule(i=st.integers(0, 50))
    def restore(self, i):
        self.do(["restore", i])

    @rule(keep_object=st.booleans())
    def dumpload(self, keep_object):
        self.do(["dumpload", keep_object])

    @rule(crash_=st.sampled_from([True, False, False]), via_script=st.booleans(), keep_object=st.booleans())
    def saveload(self, crash_, via_script, keep_object):
        self.do(["saveload", crash_, via_script, keep_object])

    @rule()
    def balance(self):
        self.do(["balance"])

    def teardown(self):
        if self.ex is None:
            return
        self.ex.close()
        res = Machine.res
        case = {"init": self.init, "ops": self.ops}
        res.count("machines")
        res.count("crash_points", self.ex.crash_points)
        res.disjoint += self.ex.inner_points
        res.evaluations += self.ex.crash_points
        res.count("receive_script_runs", self.ex.flags.get("receive_script_runs", 0))
        if self.ex.flags["handout_both_sides"]:
            res.count("machines_handout_both_sides_of_saveload")
        if res.counters["machines"] in (3, 12):
            res.sample(case)
        for f in self.ex.fails:
            if f["sig"] not in Machine.found:
                Machine.found[f["sig"]] = (f, case)


def execute(case):
    ex = Exec(case["init"])
    try:
        for op in case["ops"]:
            try:
                ex.step(op)
            except Exception as e:
                ex.fail("exception", "exc:" + exc_sig(e), "op %s raised %r" % (op[0], e))
            if ex.fails:
                break
    finally:
        ex.close()
    return ex.fails


def shards(tier):
    return [{"kind": "sm", "i": i} for i in range(15)] + [{"kind": "miner_sessions"}]


def miner_sessions(case):
    """Several runs of the real MinerWatcher.__call__ (start-up, finds, a full disk at a chosen find, Ctrl-C, the `finally`
    path) over ONE wallet.json: a key that already received a mined reward must never be the key a later candidate pays to."""
    import random
    from vf import simnet, minersession, build as b
    env.import_networking()
    from skepticoin import mining as MI, consensus as C, wallet as W
    fails = []
    info = {}
    hist = chainexec.gen_case(random.Random(case["hist_seed"]), chainexec.CFGS[0], 5, 0.0, ["C01"], p_tx=0.5, p_twin=0.0)
    hist.pop("horizon", None)
    r = chainexec.Run(hist, ("C15",))
    r.execute()
    d = env.fresh_subdir("c15ms")
    cwd = os.getcwd()
    os.chdir(d)
    try:
        simnet.install()
        net = simnet.Net()
        head = r.world.uni.nodes[r.cs.current_chain_hash]
        simnet.CLOCK.now = head.blk.ts + 40
        node = net.add("miner", "10.0.0.1", r.cs, 5, disk=simnet.RecDisk())
        node.cm.started_at = -10 ** 9
        wk = [KEYS[i] for i in (2, 3, 4, 5, 6, 7)]
        W.save_wallet(W.Wallet({k.pub: k.priv for k in wk}, [k.pub for k in wk], {}))
        known0 = set(node.cm.coinstate.block_by_hash.keys())
        ever = []
        for si, sess in enumerate(case["sessions"]):
            paid = set()
            for bid, skb in node.cm.coinstate.block_by_hash.items():
                if bid not in known0:
                    for (_v, pk) in b.from_sk_block(skb).txs[0].outs:
                        paid.add(pk)
            fault = tuple(sess["fault"]) if sess.get("fault") else None
            s_ = minersession.Session(MI, C, simnet, node, sess["finds"], case["nonce0"] + 7919 * si, fault=fault).run()
            info["sessions"] = info.get("sessions", 0) + 1
            info["finds"] = info.get("finds", 0) + s_.found
            if s_.fault_fired:
                info["faults_fired"] = info.get("faults_fired", 0) + 1
                if si + 1 < len(case["sessions"]):
                    info["fault_then_another_session"] = 1
            if s_.raised is not None:
                fails.append({"kind": "session", "sig": "miner-session-raised:" + exc_sig(s_.raised) if isinstance(s_.raised, Exception) else "miner-session-exited",
                              "msg": "session %d: MinerWatcher.__call__ ended with %r" % (si, s_.raised)})
                break
            if not s_.handed:
                raise env.HarnessError("the session never reserved a key")
            for j, pk in enumerate(s_.handed):
                earlier_paid = set(paid)
                # keys that received the reward of a block found earlier in THIS session
                for bid in s_.heads[1:1 + j]:
                    for (_v, q) in b.from_sk_block(node.cm.coinstate.block_by_hash[bid]).txs[0].outs:
                        earlier_paid.add(q)
                if pk in earlier_paid:
                    fails.append({"kind": "key_reuse", "sig": "mining-key-handed-out-again-after-it-was-paid",
                                  "msg": "session %d hands out, as hand-out #%d, a key that already received the reward of a block mined in %s (unused keys remained)" % (
                                      si, j, "an earlier session" if pk in paid else "this session")})
                    break
            ever.append(list(s_.handed))
            if fails:
                break
        return fails, info
    finally:
        os.chdir(cwd)


def run_miner_sessions(res, tier, seed):
    n = 12 if tier == "quick" else 300

    @hypothesis.seed(env.subseed(seed, ID, "miner_sessions"))
    @settings(max_examples=n, deadline=None, database=None, suppress_health_check=list(hypothesis.HealthCheck), phases=[hypothesis.Phase.generate])
    @given(st.integers(0, 1000), st.integers(0, 1 << 30), st.integers(1, 2), st.sampled_from([None, None, "save_block", "flush_blocks"]), st.integers(0, 1),
           st.integers(0, 1), st.sampled_from([None, "save_block"]))
    def prop(hist_seed, nonce0, finds1, fault1, fidx1, finds2, fault2):
        case = {"miner_sessions": True, "hist_seed": hist_seed, "nonce0": nonce0, "sessions": [
            {"finds": finds1, "fault": [fault1, min(fidx1, finds1 - 1)] if fault1 else None},
            {"finds": finds2, "fault": [fault2, 0] if fault2 and finds2 else None},
            {"finds": 0, "fault": None}]}
        fails, info = miner_sessions(case)
        res.evaluations += info.get("sessions", 0)
        for k, v in info.items():
            res.count("miner_sessions:" + k, v)
        if info.get("fault_then_another_session") and info.get("finds"):
            res.nontrivial(env.digest(case))
        for f in fails:
            res.fail(f["kind"], f["sig"], f["msg"], case)

    prop()
    res.sample({"miner_sessions": "2-3 runs of the real MinerWatcher.__call__ over one wallet.json; a full disk at a chosen find; Ctrl-C; next session"})
    return res


def run(shard, tier, seed):
    res = Result()
    if shard["kind"] == "miner_sessions":
        return run_miner_sessions(res, tier, seed)
    Machine.res = res
    Machine.found = {}
    n = 25 if tier == "quick" else 500
    steps = 26 if tier == "quick" else 40
    run_state_machine_as_test(
        hypothesis.seed(env.subseed(seed, ID, shard["i"]))(Machine),
        settings=settings(max_examples=n, stateful_step_count=steps, deadline=None, database=None,
                          suppress_health_check=list(hypothesis.HealthCheck), phases=[hypothesis.Phase.generate]))
    for sig, (f, case) in Machine.found.items():
        def still(ops):
            return any(x["sig"] == sig for x in execute({"init": case["init"], "ops": ops}))
        ops = shrink_list(case["ops"], still, 20)
        res.fail(f["kind"], sig, f["msg"], {"init": case["init"], "ops": ops})
    return res


def replay(case):
    if case.get("miner_sessions"):
        return miner_sessions(case)[0]
    return execute(case)
