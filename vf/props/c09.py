"""C09 -- relay path: only fully valid blocks enter state; rejected ones leave no trace (stateful deliveries on simnet,
real store attached)."""
import os

import hypothesis
from hypothesis import given, settings, strategies as st

from vf import chainexec, env, refmodel as R
from vf.keys import KEYS
from vf.result import Result, exc_sig
from vf.shrink import shrink_list

ID = "C09"
LEVEL = "exploration"
RULE = ("one simulated node with the REAL block store and a pending pool, three greeted peers; a Hypothesis-drawn sequence of "
        "unsolicited block deliveries (in_response_to = 0): valid blocks on any fork, duplicates (of accepted and of rejected "
        "blocks), orphans (child before parent, parent later), copies of a valid block with a corrupted body under the genuine "
        "header delivered BEFORE the genuine block, and candidates with exactly one rule broken from the whole "
        "catalogue (structural, header, spending, value rules; spends of a missing output make APPLYING the block fail). "
        "Reference acceptor: new id and known parent and reference-valid. Oracle after EVERY delivery: the node's stored ids == "
        "reference set; head per reference fork choice; store rows (file reopened) == reference set, each block byte-identical; "
        "unsolicited block messages carrying it: exactly one to every other greeted peer iff it became the head at that delivery "
        "(at most one to the deliverer), none otherwise / on repetition; on a rejected delivery: same state object, same pool, "
        "empty write buffer; later valid blocks from other peers are stored; nothing escapes the event handler. non-trivial = "
        "sequence with >= 1 rejected delivery followed by >= 1 accepted one, >= 1 duplicate and >= 1 fork; distinct = digest of "
        "the delivery list.")
ASSUMPTIONS = ["simnet transport model", "test configuration (fast scrypt stand-in, checkpoints off, short retarget periods)",
               "the harness sets the node's clock per delivery"]
MIN_NONTRIVIAL = {"quick": 60, "thorough": 1500}
F2 = "C09-F2:accepted-block-shares-a-transaction-id-with-a-stored-block"
CATS = ["C01", "C01", "C02", "C05", "S"]


def gen(rnd, cfg, nb):
    if rnd.random() < 0.3:
        # a long side branch next to the best chain (forked early, crossing retarget heights while it is not the head)
        # (shortest retarget period, so that the side branch outlives its fork point by more than an interval several times)
        case = chainexec.gen_case(rnd, chainexec.CFGS[0], nb + 7, 0.25, CATS, p_fork=0.1, p_extend_side=0.5, p_tx=0.4, zero_rewards=True, p_binary_cbdata=0.3)
    else:
        case = chainexec.gen_case(rnd, cfg, nb, 0.45, CATS, p_fork=0.45, p_tx=0.75, zero_rewards=True, p_deep_fork=0.2, deep_min=cfg[0] + 1, p_binary_cbdata=0.3)
    ops = case["ops"]
    deliveries = []
    deferred = []
    delivered = []
    for i, op in enumerate(ops):
        x = rnd.random()
        if not op.get("mut") and x < 0.15 and i > 1:
            deferred.append(i)
            continue
        if not op.get("mut") and rnd.random() < 0.2:
            deliveries.append(-1 - i)                         # first a copy with a corrupted body under the genuine header
        deliveries.append(i)
        delivered.append(i)
        if rnd.random() < 0.2:
            deliveries.append(rnd.choice(delivered))          # duplicate
    for i in deferred:
        deliveries.append(i)
    # children that were dropped as orphans come again (now their parent is known)
    for i, op in enumerate(ops):
        if not op.get("mut") and any(ops[j]["label"] == op["parent"] for j in deferred):
            deliveries.append(i)
    for _ in range(2):
        if delivered:
            deliveries.append(rnd.choice(delivered))
    return dict(case, deliveries=[[i, rnd.randrange(3)] for i in deliveries], pool=rnd.randrange(0, 3))


class Exec:
    def __init__(self, case):
        from vf import simnet, build as b
        env.import_networking()
        from skepticoin import blockstore as BS
        from skepticoin.coinstate import CoinState
        from skepticoin.networking import messages as M
        self.M, self.b, self.simnet, self.BS = M, b, simnet, BS
        self.case = case
        env.use_fast_pow()
        env.set_retarget(case["cfg"][0], case["cfg"][1])
        cfg = R.Config(case["cfg"][0], case["cfg"][1])
        self.world = b.World(cfg)
        # phase 1: build every block of the universe (mutated candidates are built, not stored)
        self.built = {}
        for i, op in enumerate(case["ops"]):
            if op["parent"] not in self.world.blocks:
                continue
            try:
                blk = self.world.build_block(op)
            except (KeyError, IndexError):
                continue
            if blk is None:
                continue
            self.built[i] = blk
            if not op.get("mut"):
                self.world.accept(op["label"], blk)
        self.acc = R.RefLedger(b.GENESIS, cfg)
        self.dir = env.fresh_subdir("c09")
        self.path = os.path.join(self.dir, "chain.db")
        with env.quiet():
            self.store = BS.BlockStore(self.path)
        self.old_default = BS.DefaultBlockStore.instance
        BS.DefaultBlockStore.instance = self.store
        simnet.install()
        self.net = simnet.Net()
        self.node = self.net.add("n", "10.0.0.1", CoinState.zero(), 7, disk=simnet.StoreDisk())
        self.node.cm.started_at = -10 ** 9
        self.peers = []
        for k in range(3):
            self.new_peer(k)
        self.fails = []
        self.flags = {"rejected": 0, "accepted_after_reject": 0, "dups": 0, "orphans": 0, "accepted": 0}
        self.npool = case.get("pool", 0)

    def new_peer(self, k):
        w = self.simnet.Wire(self.net, self.node, host="10.0.1.%d" % (len(self.peers) + 10 if k is None else k + 10 + 10 * len(self.peers)))
        w.greet(nonce=500 + len(self.peers))
        w.collect()
        if k is None or k >= len(self.peers):
            self.peers.append(w)
        else:
            self.peers[k] = w
        return w

    def close(self):
        self.BS.DefaultBlockStore.instance = self.old_default
        try:
            self.store.close()
        except Exception:
            pass

    def fail(self, kind, sig, msg):
        if not any(f["sig"] == sig for f in self.fails):
            self.fails.append({"kind": kind, "sig": sig, "msg": msg})

    def fill_pool(self):
        head = self.acc.head()
        n = 0
        for ref, o in sorted(head.utxo.items()):
            if n >= self.npool:
                break
            k = next((k for k in KEYS if k.pub == o[1]), None)
            if k is None or o[0] < 2:
                continue
            tx = R.RTx([(ref[0], ref[1], ("se",))], [(o[0] - 1, KEYS[n].pub)])
            tx.ins = [(ref[0], ref[1], ("sig", k.sign(R.signing_message(tx))))]
            if self.b.to_sk_tx(tx.touch()) not in self.node.cm.transaction_pool:
                self.net.call(self.node, self.node.cm.add_transaction_to_pool, self.b.to_sk_tx(tx))
            n += 1

    def store_blocks(self):
        with env.quiet():
            s = self.BS.BlockStore(self.path)
        try:
            return {x.hash(): x.serialize() for x in s.read_blocks_from_disk()}
        finally:
            s.close()

    def deliver(self, idx, who):
        M, b = self.M, self.b
        corrupt_body = idx < 0
        if corrupt_body:
            idx = -1 - idx
        blk = self.built.get(idx)
        if blk is None:
            return
        op = self.case["ops"][idx]
        if corrupt_body:
            cb = blk.txs[0]
            alt = R.RTx(list(cb.ins), [(max(0, (cb.outs[0][0] if cb.outs else 1) - 1), KEYS[(op.get("miner", 0) + 3) % len(KEYS)].pub)])
            blk = R.RBlock(blk.height, blk.prev, blk.merkle, blk.ts, blk.target, blk.nonce, blk.ev, [alt] + list(blk.txs[1:]))
            op = dict(op, mut="S:body_corrupted_under_genuine_header", form="obj")
            self.flags["corrupt_body_copies"] = self.flags.get("corrupt_body_copies", 0) + 1
        who %= len(self.peers)
        if not self.peers[who].connected:
            self.new_peer(who)
        w = self.peers[who]
        if len(self.acc.order) in (3, 6):
            self.fill_pool()
        self.simnet.CLOCK.now = blk.ts + op.get("now_off", 0)
        now = self.simnet.CLOCK.now
        bid = blk.id()
        # reference acceptor
        if bid in self.acc.nodes and not corrupt_body:
            expect, why = False, "duplicate"
            self.flags["dups"] += 1
        elif blk.prev not in self.acc.nodes:
            expect, why = False, "orphan"
            self.flags["orphans"] += 1
        else:
            verdict = self.acc.validate(blk, now)
            expect, why = (not verdict), (verdict[0] if verdict else "valid")
        becomes_head = False
        if expect:
            self.acc.add(blk)
            becomes_head = self.acc.head().id == bid
        cs_before = self.node.cm.coinstate
        pool_before = [t.hash() for t in self.node.cm.transaction_pool]
        for p in self.peers:
            p.collect()
        marks = [len(p.received) for p in self.peers]
        frame = None
        try:
            if op.get("form") == "bytes":
                import struct
                w.msg_id += 1
                hdr = M.MessageHeader(now & 0xFFFFFFFF, w.msg_id, 0, 9).serialize()
                data = hdr + M.MSG_DATA + b"\x00" + M.DATA_BLOCK + blk.raw()          # canonical bytes from the reference encoder
                frame = b"MAJI" + struct.pack(">I", len(data)) + data
            else:
                frame = w.frame(M.DataMessage(M.DATA_BLOCK, self.b.to_sk_block(blk)))
        except Exception:
            frame = None
        if frame is None:
            # not encodable at all (e.g. a value >= 2^64): cannot travel over a connection
            if expect:
                raise env.HarnessError("reference accepts an unencodable block")
            if bid in self.acc.nodes:
                pass
            return
        w.send_raw(frame)
        self.net.drain(None, only=[self.node])
        for p in self.peers:
            p.collect()
        tag = "%s(%s)" % (op["label"], op.get("mut") or why)
        if self.net.escaped:
            self.fail("escape", "exception-escaped-handler", "delivery of %s: an exception left the event handler: %s" % (tag, self.net.escaped[0][1]))
        # 1. stored ids / head
        have = set(self.node.cm.coinstate.block_by_hash.keys())
        want = set(self.acc.nodes.keys())
        if have != want:
            extra, missing = have - want, want - have
            if extra:
                self.fail("state", "invalid-block-in-state:" + why.split(":")[0], "after delivery of %s the chain state holds %d block(s) the reference acceptor refuses (%s)" % (tag, len(extra), why))
            else:
                self.fail("state", "valid-block-not-in-state", "after delivery of %s: %d reference-accepted block(s) missing from chain state" % (tag, len(missing)))
        elif self.node.cm.coinstate.current_chain_hash != self.acc.head().id:
            self.fail("state", "head!=reference", "after delivery of %s the head differs from the reference fork choice" % tag)
        # 2. store
        try:
            disk = self.store_blocks()
            wantd = {i: n.blk.raw() for i, n in self.acc.nodes.items()}
            from vf.props.c08 import faulty_model as _fm
            _model = {k: v for k, v in _fm([self.acc.nodes[i].blk for i in self.acc.order]).items() if v is not None}
            if disk != wantd and disk == _model:
                self.flags["c08_f1_seen"] = self.flags.get("c08_f1_seen", 0) + 1          # root cause C08-F1
                self.fail("known", F2, "after delivery of %s: an accepted block contains a transaction whose id is already stored with another block (same transaction on two forks); the store returns it with the first-written block only, so the accepted block is not stored faithfully" % tag)
            elif set(disk) != set(wantd):
                extra, missing = set(disk) - set(wantd), set(wantd) - set(disk)
                if extra:
                    self.fail("store", "rejected-block-in-store", "after delivery of %s the store holds %d block(s) that were never accepted" % (tag, len(extra)))
                else:
                    self.fail("store", "accepted-block-not-in-store", "after delivery of %s: %d accepted block(s) are not in the store (first missing was accepted as %s)" % (tag, len(missing), "earlier/this delivery"))
            elif disk != wantd:
                from vf.props.c08 import faulty_model
                model = {k: v for k, v in faulty_model([self.acc.nodes[i].blk for i in self.acc.order]).items() if v is not None}
                if disk == model:
                    self.flags["c08_f1_seen"] = self.flags.get("c08_f1_seen", 0) + 1      # root cause C08-F1
                    self.fail("known", F2, "after delivery of %s: an accepted block shares a transaction id with a stored block and is not stored faithfully" % tag)
                else:
                    self.fail("store", "stored-content-differs", "after delivery of %s a stored block is not byte-identical" % tag)
        except Exception as e:
            self.fail("store", "store-unreadable:" + exc_sig(e), "store cannot be read after delivery of %s: %r" % (tag, e))
        if len(self.store.write_buffer):
            self.fail("store", "write-buffer-not-empty", "after delivery of %s (%s) the write buffer still holds %d block(s)" % (tag, why, len(self.store.write_buffer)))
        # 3. relay
        for k, p in enumerate(self.peers):
            n = sum(1 for (h, m) in p.received[marks[k]:] if isinstance(m, M.DataMessage) and m.data_type == M.DATA_BLOCK and h.in_response_to == 0 and m.data.hash() == bid)
            other = sum(1 for (h, m) in p.received[marks[k]:] if isinstance(m, M.DataMessage) and m.data_type == M.DATA_BLOCK and h.in_response_to == 0 and m.data.hash() != bid)
            greeted = p.connected and p.remote_peer.hello_received
            if other:
                self.fail("relay", "relayed-other-block", "delivery of %s made the node relay a different block" % tag)
            if k == who:
                if n > 1:
                    self.fail("relay", "relayed-twice", "block %s sent %d times to its deliverer" % (tag, n))
                continue
            if becomes_head and greeted and n != 1:
                self.fail("relay", "new-head-not-relayed-exactly-once", "new head %s relayed %d times to peer %d" % (tag, n, k))
            if not becomes_head and n:
                self.fail("relay", "relayed-without-being-new-head:" + why.split(":")[0], "%s (%s) relayed to peer %d although it did not become the head" % (tag, why, k))
        # 4. rejected: no trace
        if not expect:
            self.flags["rejected"] += 1
            if self.node.cm.coinstate is not cs_before and have == want:
                self.fail("state", "state-object-replaced-on-reject", "rejected delivery %s replaced the chain-state object" % tag)
            if [t.hash() for t in self.node.cm.transaction_pool] != pool_before:
                self.fail("pool", "pool-changed-on-reject", "rejected delivery %s (%s) changed the pending pool" % (tag, why))
        else:
            self.flags["accepted"] += 1
            if self.flags["rejected"]:
                self.flags["accepted_after_reject"] += 1
        self.net.escaped.clear()


def execute(case):
    ex = Exec(case)
    try:
        for idx, who in case["deliveries"]:
            ex.deliver(idx, who)
            if any(f["kind"] != "known" for f in ex.fails):
                break
        return ex.fails, ex
    finally:
        ex.close()


def shards(tier):
    return [{"kind": "seq", "i": i} for i in range(15)] + [{"kind": "bulk_boundary"}]


def run_bulk_boundary(res, tier, seed, only=None):
    """A peer is serving a FULL inventory batch (the real batch size, 500 blocks) as answers; when k of them have arrived --
    k around the batch size, so the write buffer holds k unflushed blocks -- another peer relays an unsolicited block that is
    structurally sound but breaks a chain rule.  It must be refused without a trace: not in chain state, not in the write
    buffer, not in the store after a restart; and a valid block relayed afterwards is stored."""
    env.import_networking()
    from vf import simnet, build as b
    from skepticoin import blockstore as BS
    from skepticoin.coinstate import CoinState
    from skepticoin.networking import messages as M, remote_peer as RP
    from skepticoin.scripts.utils import read_chain_from_disk
    env.use_fast_pow()
    env.set_retarget(None, None)
    batch = RP.GET_BLOCKS_INVENTORY_SIZE
    world = b.World(R.Config())
    prev = "g"
    chain = []
    for i in range(1, batch + 2):
        blk = world.build_block({"label": "c%d" % i, "parent": prev, "miner": i % len(KEYS), "dt": 120, "txs": []})
        if blk is None or world.uni.validate(blk, blk.ts):
            raise env.HarnessError("cannot build the long chain")
        world.accept("c%d" % i, blk)
        chain.append(blk)
        prev = "c%d" % i
    ks = [batch - 1, batch, batch - 2, 1, batch // 2] if tier != "quick" else [batch - 1, batch]
    if only is not None:
        ks = [only] if only != "short_height" else []
    simnet.install()
    old_default = BS.DefaultBlockStore.instance
    try:
        for k in ks:
            d = env.fresh_subdir("c09bulk")
            path = os.path.join(d, "chain.db")
            with env.quiet():
                store = BS.BlockStore(path)
            BS.DefaultBlockStore.instance = store
            net = simnet.Net()
            node = net.add("n", "10.0.0.1", CoinState.zero(), 7, disk=simnet.StoreDisk())
            node.cm.started_at = -10 ** 9
            w1 = simnet.Wire(net, node, host="10.0.1.10")
            w1.greet(nonce=501)
            w2 = simnet.Wire(net, node, host="10.0.1.11")
            w2.greet(nonce=502)
            for x in chain[:k]:
                simnet.CLOCK.now = x.ts + 1
                w1.send(M.DataMessage(M.DATA_BLOCK, b.to_sk_block(x)), in_response_to=9)
                w1.deliver()
            res.evaluations += k
            rows_before = set(bytes(r[0]) for r in store.sql("select block_hash from chain").fetchall())
            bad = world.build_block({"label": "bad%d" % k, "parent": "c%d" % k, "miner": 2, "dt": 120, "txs": [], "reward": {"delta": 1}})
            if bad is None:
                raise env.HarnessError("cannot build the rule-breaking block")
            simnet.CLOCK.now = bad.ts + 1
            w2.send(M.DataMessage(M.DATA_BLOCK, b.to_sk_block(bad)))
            w2.deliver()
            net.drain(None, only=[node])
            res.evaluations += 1
            res.nontrivial("bulk_boundary:%d" % k)
            case = {"bulk_boundary": k}
            what = "with %d of a %d-block batch served and unflushed, an unsolicited block whose reward is 1 too high" % (k, batch)
            if net.escaped:
                res.fail("escape", "exception-escaped-handler", "%s: %s" % (what, net.escaped[0][1]), case)
            if bad.id() in node.cm.coinstate.block_by_hash:
                res.fail("state", "invalid-block-in-state:C02", "%s entered chain state" % what, case)
            if any(x.hash() == bad.id() for x in store.write_buffer):
                res.fail("store", "write-buffer-not-empty", "%s stayed in the write buffer" % what, case)
            # a valid block relayed afterwards (by the other peer) must still be stored
            nxt = chain[0] if chain[0].id() not in node.cm.coinstate.block_by_hash else None
            if nxt is not None:
                simnet.CLOCK.now = nxt.ts + 1
                if not w1.connected:
                    w1 = simnet.Wire(net, node, host="10.0.1.12")
                    w1.greet(nonce=503)
                w1.send(M.DataMessage(M.DATA_BLOCK, b.to_sk_block(nxt)))
                w1.deliver()
                net.drain(None, only=[node])
            # restart
            held = set(node.cm.coinstate.block_by_hash)
            store.close()
            with env.quiet():
                store2 = BS.BlockStore(path)
                BS.DefaultBlockStore.instance = store2
                disk = {x.hash(): x for x in store2.read_blocks_from_disk()}
                cs = read_chain_from_disk()
            store2.close()
            if bad.id() in disk or bad.id() in cs.block_by_hash:
                res.fail("store", "rejected-block-in-store", "%s was refused, but after a restart it is in the block store / the rebuilt chain state" % what, case)
            # whatever reached the store after the refusal must be something the node still holds: the refusal rolled chain state
            # back, so answers that were only buffered at that moment were dropped with it and must not be written later
            dropped = [h for h in disk if h not in held and h not in rows_before]
            if dropped:
                res.fail("store", "store-holds-blocks-the-node-dropped", "%s was refused and chain state rolled back to %d block(s); after the next flush and a restart the store holds %d block(s) "
                         "that were written after the refusal and are not in the node's chain state (rebuilt head height %d, running node %d)" % (
                             what, len(held), len(dropped), cs.head().height if cs.heads else -1, node.cm.coinstate.head().height if node.cm.coinstate.heads else -1), case)
            if nxt is not None and nxt.id() not in disk:
                res.fail("store", "accepted-block-not-in-store", "%s was refused; a valid block relayed afterwards is not in the store after a restart" % what, case)
        if only is None or only == "short_height":
            # the same block in a SECOND encoding: block 64 (its height is written 0x80 0x40 on the deployed network) is relayed
            # once as it is and once with the height squeezed into one octet -- the repeated delivery must have no effect
            import struct
            d = env.fresh_subdir("c09short")
            path = os.path.join(d, "chain.db")
            with env.quiet():
                store = BS.BlockStore(path)
            BS.DefaultBlockStore.instance = store
            net = simnet.Net()
            node = net.add("n", "10.0.0.1", CoinState.zero(), 7, disk=simnet.StoreDisk())
            node.cm.started_at = -10 ** 9
            w1 = simnet.Wire(net, node, host="10.0.1.10")
            w1.greet(nonce=501)
            w2 = simnet.Wire(net, node, host="10.0.1.11")
            w2.greet(nonce=502)
            for x in chain[:64]:
                simnet.CLOCK.now = x.ts + 1
                w1.send(M.DataMessage(M.DATA_BLOCK, b.to_sk_block(x)))
                w1.deliver()
            net.drain(None, only=[node])
            x = chain[63]
            raw = x.raw()
            case = {"bulk_boundary": "short_height"}
            if len(node.cm.coinstate.block_by_hash) != 65 or R.vlq(64) != raw[1:3]:
                raise env.HarnessError("the 64-block chain was not adopted / unexpected height encoding")
            alt = raw[:1] + b"\x40" + raw[3:]
            w2.collect()
            n0 = len(w2.received)
            rows0 = store.sql("select count(*) from chain").fetchone()[0]
            w1.msg_id += 1
            data = M.MessageHeader(1, w1.msg_id, 0, 9).serialize() + M.MSG_DATA + b"\x00" + M.DATA_BLOCK + alt
            if not w1.connected:
                w1 = simnet.Wire(net, node, host="10.0.1.12")
                w1.greet(nonce=503)
            w1.send_raw(b"MAJI" + struct.pack(">I", len(data)) + data)
            net.drain(None, only=[node])
            w2.collect()
            res.evaluations += 65
            res.nontrivial("bulk_boundary:short_height")
            n_state = len(node.cm.coinstate.block_by_hash)
            rows1 = store.sql("select count(*) from chain").fetchone()[0]
            relayed = sum(1 for (h, m) in w2.received[n0:] if isinstance(m, M.DataMessage) and m.data_type == M.DATA_BLOCK and h.in_response_to == 0)
            if n_state != 65 or rows1 != rows0 or relayed:
                res.fail("state", "second-encoding-of-a-known-block-had-an-effect", "block 64 relayed again with its height in one octet: chain state holds %d blocks (65 before), the store %d rows (%d before), %d copies were relayed" % (
                    n_state, rows1, rows0, relayed), case)
            bad_ids = [i for i, blk_ in node.cm.coinstate.block_by_hash.items() if i != R.sha256d(blk_.header.serialize())]
            if bad_ids:
                res.fail("state", "block-known-under-an-id-that-is-not-its-header-hash", "after the repeated delivery chain state knows a block under an id that is not the hash of its header", case)
            store.close()
    finally:
        BS.DefaultBlockStore.instance = old_default
    res.sample({"bulk_boundary": ks, "batch": batch})
    return res


def run(shard, tier, seed):
    res = Result()
    if shard["kind"] == "bulk_boundary":
        return run_bulk_boundary(res, tier, seed)
    n = 14 if tier == "quick" else 400
    found = {}

    @hypothesis.seed(env.subseed(seed, ID, shard["i"]))
    @settings(max_examples=n, deadline=None, database=None, suppress_health_check=list(hypothesis.HealthCheck), phases=[hypothesis.Phase.generate])
    @given(st.randoms(use_true_random=True), st.sampled_from(chainexec.CFGS), st.integers(6, 13 if tier == "quick" else 22))
    def prop(rnd, cfg, nb):
        case = gen(rnd, cfg, nb)
        if shard["i"] >= 13 and rnd.random() < 0.6:
            # a barrage over ONE connection: every rule-breaking block comes several times (a refused block is new each time),
            # so that connection has seen well over ten refusals when the later ones -- and the valid blocks after them -- arrive
            dl = []
            for i, _who in case["deliveries"]:
                times = rnd.randrange(2, 5) if i >= 0 and case["ops"][i].get("mut") else 1
                dl += [[i, 0]] * times
            case["deliveries"] = dl
            res.count("sequences_barrage_on_one_connection")
        try:
            fails, ex = execute(case)
        except env.HarnessError as e:
            res.error(str(e))
            return
        res.evaluations += len(case["deliveries"])
        res.count("sequences")
        for k, v in ex.flags.items():
            res.count("deliveries_" + k, v)
        forks = len(ex.acc.tips()) > 1
        if ex.flags["accepted_after_reject"] and ex.flags["dups"] and forks:
            res.nontrivial(env.digest(case))
        if res.counters["sequences"] in (1, 7):
            res.sample({"cfg": case["cfg"], "deliveries": [(case["ops"][i]["label"], case["ops"][i].get("mut"), who) for i, who in case["deliveries"]][:14]})
        for f in fails:
            if f["sig"] not in found:
                found[f["sig"]] = (f, case)
            res.count("fail:" + f["sig"])

    prop()
    for sig, (f, case) in found.items():
        def still(dl):
            try:
                return any(x["sig"] == sig for x in execute(dict(case, deliveries=dl))[0])
            except Exception:
                return False
        dl = shrink_list(case["deliveries"], still, 25 if tier == "quick" else 90)
        res.fail(f["kind"], sig, f["msg"], dict(case, deliveries=dl))
    return res


def replay(case):
    if "bulk_boundary" in case:
        return run_bulk_boundary(Result(), "quick", 1, only=case["bulk_boundary"]).failures
    return execute(case)[0]
