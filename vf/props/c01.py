"""C01 -- no unauthorised or double spending in any fully validated block; a rejected block leaves the state untouched."""
from vf import chainexec, env
from vf.result import Result

ID = "C01"
LEVEL = "exploration"
FOCUS = ("C01",)
RULE = ("Hypothesis-drawn histories (6-14 quick / up to 30 thorough candidate blocks on any stored parent, forks and "
        "reorganisations, 0-3 spends per block, retarget period drawn from {3,5,8,10080}); ~45% of slots carry one "
        "mutated candidate with exactly one C01 rule broken (missing / already-spent / other-fork output, reference twice "
        "in a transaction / in the block, output created in the same block, wrong key, output/reference/input changed "
        "after signing, copied signature, placeholder object, flipped signature bit, null reference), offered as objects "
        "or via bytes. Oracle: add_block returns => reference validator (independent re-implementation, ecdsa verify "
        "under the referenced output's key over the blanked transaction) finds no C01 clause violated; receiver-state "
        "digest unchanged by every attempt; unspent map after an accept equals the reference map. "
        "non-trivial = history in which a candidate with >=1 ordinary transaction is offered on a state that already has "
        "a fork or an earlier spend; distinct = digest of the op list.")
ASSUMPTIONS = ["scrypt replaced by a sha256 stand-in and checkpoints disabled (test configuration, DESIGN.md 2)",
               "retarget period patched to short values in 6 of 7 histories",
               "ecdsa's verifier is the arbiter of a signature", "reference validator in vf/refmodel.py"]
MIN_NONTRIVIAL = {"quick": 50, "thorough": 500}
CATS = ["C01", "C01", "C01", "S"]


def shards(tier):
    return [{"kind": "hist", "i": i} for i in range(16)]


def run(shard, tier, seed):
    res = Result()
    n = 60 if tier == "quick" else 600
    nb = (6, 14) if tier == "quick" else (6, 30)
    if shard["i"] % 8 == 7:
        # very long histories: branches that start more than 32 blocks below the head (bookkeeping that is pruned, cached or
        # summarised by depth only shows there)
        return chainexec.drive(res, env.subseed(seed, ID, shard["i"]), n // 6, tier, FOCUS, CATS, ID, n_blocks=(40, 48), p_mut=0.4,
                               p_fork=0.1, p_deep_fork=0.35, deep_min=33, p_tx=0.8, p_restart=0.0)
    if shard["i"] % 4 == 3:
        # long histories whose later candidates (honest and broken) sit on parents far below the head
        return chainexec.drive(res, env.subseed(seed, ID, shard["i"]), n // 2, tier, FOCUS, CATS, ID, n_blocks=(18, 26 if tier == "quick" else 40), p_mut=0.5,
                               p_fork=0.15, p_deep_fork=0.45, p_tx=0.6, p_restart=0.02, p_big_block=0.3)
    return chainexec.drive(res, env.subseed(seed, ID, shard["i"]), n, tier, FOCUS, CATS, ID, n_blocks=nb, p_mut=0.45,
                           p_copy=0.1, p_restart=0.08, p_fork=0.5)


def replay(case):
    return chainexec.replay(case, FOCUS)
