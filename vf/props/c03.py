"""C03 -- ledger state at a block is a function of that block's chain alone (arrival order, forks, reorganisations)."""
import hashlib
import itertools

import hypothesis
from hypothesis import given, settings, strategies as st

from vf import chainexec, env, refmodel as R
from vf.result import Result

ID = "C03"
LEVEL = "exploration"
RULE = ("Hypothesis-drawn block trees with transactions (forks of any shape, spends that differ between forks, the same "
        "transaction mined on two forks), built once, then re-delivered in further parent-before-child arrival orders: "
        "EVERY topological order for trees of <= 6 blocks (enumerated), otherwise 3 drawn topological orders plus order-by-"
        "height; through add_block (validated) and add_block_no_validation. Oracle, for every stored block in every order: "
        "unspent map == replay-from-genesis reference; public_key_balances_by_hash[b] == reference balances (sum and exact "
        "reference set per key, no duplicates, empty entries ignored); Wallet.get_balance(subset of keys) == reference sum "
        "at the head; all orders agree; every intermediate CoinState (and balances read from it) has the same digest at the "
        "end as when it was returned; before the comparison some balance queries are interrupted by an exception half-way or "
        "overlapped by a query from a second thread, and a wallet reads its balance and builds spends from the state (nothing may "
        "be left behind). non-trivial = tree with >= 1 fork whose branches contain different spends and >= 2 "
        "distinct orders; distinct = digest of (ops, orders).")
ASSUMPTIONS = ["test configuration (fast scrypt stand-in, checkpoints off)", "replay-from-genesis reference in vf/refmodel.py"]
MIN_NONTRIVIAL = {"quick": 60, "thorough": 600}


def shards(tier):
    return [{"kind": "trees", "i": i} for i in range(16)]


def topo_orders(labels, parent, limit=None):
    """all arrival orders in which parents precede children (labels in creation order)"""
    out = []

    def rec(done, rest):
        if limit is not None and len(out) >= limit:
            return
        if not rest:
            out.append(list(done))
            return
        ds = set(done)
        for l in rest:
            if parent[l] == "g" or parent[l] in ds:
                rec(done + [l], [x for x in rest if x != l])

    rec([], list(labels))
    return out


def random_topo(rnd, labels, parent):
    done, rest = [], list(labels)
    while rest:
        ds = set(done)
        ready = [l for l in rest if parent[l] == "g" or parent[l] in ds]
        l = rnd.choice(ready)
        done.append(l)
        rest.remove(l)
    return done


def balances_digest(cs, bids):
    h = hashlib.sha256()
    for b in sorted(bids):
        m = cs.public_key_balances_by_hash[b]
        for pk, bal in sorted(((k.public_key, v) for k, v in m.items())):
            h.update(pk + str(bal.value).encode())
            for r in sorted((r.hash, r.index) for r in bal.output_references):
                h.update(r[0] + str(r[1]).encode())
    return h.hexdigest()


class Checker:
    def __init__(self, case):
        from vf import build
        self.b = build
        self.case = case
        self.fails = []
        self.stats = {}
        run = chainexec.Run({"cfg": case["cfg"], "ops": case["ops"]}, ("C03",))
        run.execute()                      # order 0: builds the universe, validated path
        self.run0 = run
        self.world = run.world
        self.led = run.world.uni
        self.harness = run.harness
        self.labels = [o["label"] for o in case["ops"] if o["label"] in self.world.blocks and self.world.blocks[o["label"]].id() in self.led.nodes]
        self.parent = {o["label"]: o["parent"] for o in case["ops"]}
        self.now = {o["label"]: o.get("now_off", 0) for o in case["ops"]}

    def fail(self, kind, sig, msg):
        if not any(f["sig"] == sig for f in self.fails):
            self.fails.append({"kind": kind, "sig": sig, "msg": msg})

    def check_state(self, cs, order_name):
        b, led = self.b, self.led
        for bid in cs.block_by_hash.keys():
            ref = led.replay_from_genesis(bid)
            try:
                got = b.sk_utxo_plain(cs, bid)
            except Exception as e:
                self.fail("utxo", "utxo-query-raised", "order %s: asking for the unspent set at stored block %s raised %s" % (order_name, bid.hex()[:12], type(e).__name__))
                continue
            if got != ref:
                self.fail("utxo", "utxo!=replay", "order %s: unspent set at %s differs from replay-from-genesis (%d vs %d entries)" % (order_name, bid.hex()[:12], len(got), len(ref)))
            rb = led.balances(ref)
            try:
                m = cs.public_key_balances_by_hash[bid]
            except Exception as e:
                self.fail("balances", "balance-query-raised", "order %s: querying the balances at %s raised %r" % (order_name, bid.hex()[:12], e))
                continue
            gb = {}
            for pk, bal in m.items():
                refs = [(r.hash, r.index) for r in bal.output_references]
                if len(refs) != len(set(refs)):
                    self.fail("balances", "balance-duplicate-reference", "order %s: duplicate reference in a key's list at %s" % (order_name, bid.hex()[:12]))
                if bal.value == 0 and not refs:
                    continue
                gb[pk.public_key] = [bal.value, set(refs)]
            if gb != rb:
                self.fail("balances", "balances!=reference", "order %s: per-key balances at %s differ from reference" % (order_name, bid.hex()[:12]))
        return True

    def wallet_check(self, cs, rnd):
        from skepticoin.wallet import Wallet
        from vf.keys import KEYS
        ks = [k for k in KEYS if rnd.random() < 0.5]
        ann = {k.pub: "a" for k in ks[::2]}
        unused = [k.pub for k in ks[1::2]]
        w = Wallet({k.pub: k.priv for k in ks}, unused, ann)
        try:
            got = w.get_balance(cs)
        except Exception as e:
            self.fail("wallet_balance", "wallet-balance-raised", "Wallet.get_balance on the final state raised %s" % type(e).__name__)
            return
        head = self.led.nodes[cs.current_chain_hash]
        want = sum(v for (v, pk) in head.utxo.values() if pk in {k.pub for k in ks})
        if got != want:
            self.fail("wallet_balance", "wallet-balance!=reference", "Wallet.get_balance=%d, reference %d (%d keys)" % (got, want, len(ks)))

    def interrupted_and_concurrent_queries(self, cs, name):
        """a balance query that is interrupted by an exception half-way, or overlapped by a second query from another
        thread, must not leave anything behind: the queries made afterwards (check_state) are compared with the reference"""
        import threading
        import skepticoin.balances as BAL
        bids = sorted(cs.block_by_hash.keys(), key=lambda i: -cs.block_by_hash[i].height)
        if len(bids) < 3:
            return
        orig = BAL.uto_apply_block

        class Interrupt(Exception):
            pass

        for mode in ("interrupt", "overlap"):
            for target, when in ((bids[0], 2), (bids[1], 1)):
                calls = {"n": 0}

                def hooked(utxo, block):
                    calls["n"] += 1
                    if calls["n"] == when:
                        if mode == "interrupt":
                            raise Interrupt()
                        t = threading.Thread(target=lambda: cs.public_key_balances_by_hash[bids[-1 if target != bids[-1] else 0]])
                        t.daemon = True
                        t.start()
                        t.join(0.2)
                    return orig(utxo, block)

                BAL.uto_apply_block = hooked
                try:
                    try:
                        cs.public_key_balances_by_hash[target]
                    except Interrupt:
                        pass
                    except Exception as e:
                        self.fail("balances", "balance-query-raised-after-" + mode, "order %s: a balance query raised %r after an earlier query was %s" % (
                            name, e, "interrupted by an exception" if mode == "interrupt" else "overlapped by another thread's query"))
                finally:
                    BAL.uto_apply_block = orig
                self.stats["interrupted_or_overlapped_queries"] = self.stats.get("interrupted_or_overlapped_queries", 0) + 1

    def exercise_readers(self, cs, name):
        """operations that only READ a chain state (balance of a wallet, building spends from it -- twice) must leave it as it
        is: the comparison with the reference happens right afterwards"""
        from skepticoin.wallet import Wallet, create_spend_transaction
        from skepticoin.signing import SECP256k1PublicKey
        from vf.keys import KEYS
        try:
            for bid in list(cs.block_by_hash.keys())[:3]:
                cs.public_key_balances_by_hash[bid]
            w = Wallet({k.pub: k.priv for k in KEYS}, [k.pub for k in KEYS[::2]], {k.pub: "x" for k in KEYS[1::2]})
            total = w.get_balance(cs)
            for amount in (1, max(1, total // 3), max(1, total - 1)):
                try:
                    create_spend_transaction(w, cs, amount, 0, SECP256k1PublicKey(KEYS[0].pub), SECP256k1PublicKey(KEYS[1].pub))
                except Exception:
                    pass
            self.stats["reader_exercises"] = self.stats.get("reader_exercises", 0) + 1
        except Exception as e:
            self.fail("readers", "reader-raised", "order %s: a read-only use of the chain state raised %r" % (name, e))

    def deliver(self, order, validated, name, rnd=None, snapshots=False, probe=False):
        from skepticoin.coinstate import CoinState
        b = self.b
        cs = CoinState.zero()
        snaps = []
        for l in order:
            blk = self.world.blocks[l]
            skb = b.to_sk_block(blk) if validated else self.run0.Block.deserialize(blk.raw())
            try:
                cs = cs.add_block(skb, blk.ts + self.now[l]) if validated else cs.add_block_no_validation(skb)
            except Exception as e:
                self.fail("order_dependent_verdict", "rejected-in-other-order", "order %s: block %s raised %r" % (name, l, e))
                return None
            if snapshots:
                bids = list(cs.block_by_hash.keys())
                try:
                    snaps.append((cs, b.coinstate_digest(cs), balances_digest(cs, bids), bids))
                except Exception as e:
                    self.fail("balances", "balance-query-raised", "order %s: querying the balances of every stored block after arrival of %s raised %r" % (name, l, e))
                    return None
        if probe:
            self.interrupted_and_concurrent_queries(cs, name)
            self.exercise_readers(cs, name)
        self.check_state(cs, name)
        if rnd is not None:
            self.wallet_check(cs, rnd)
        for i, (s, d1, d2, bids) in enumerate(snaps):
            if b.coinstate_digest(s) != d1:
                self.fail("snapshot", "snapshot-changed", "order %s: snapshot taken after arrival %d changed later" % (name, i))
            try:
                d2now = balances_digest(s, bids)
            except Exception as e:
                self.fail("balances", "balance-query-raised", "order %s: querying the balances of snapshot %d again raised %r" % (name, i, e))
                break
            if d2now != d2:
                self.fail("snapshot", "snapshot-balances-changed", "order %s: balances of snapshot %d changed later" % (name, i))
        return cs

    def restart(self, order, how, name):
        """The node is restarted: the blocks of `order` are written to a fresh block store (how[0] per flush; how[1] = SQL
        statement at which the LAST flush fails with "disk full", or None), the store is reopened, the chain state is rebuilt by
        the start-up code, blocks that did not reach the disk are downloaded again -- and the ledger at every block must
        still be the replay of its ancestors."""
        import os
        env.import_networking()
        from skepticoin import blockstore as BS
        from skepticoin.scripts import utils as U
        b = self.b
        blocks = [self.world.blocks[l] for l in order]
        path = os.path.join(env.fresh_subdir("c03restart"), "chain.db")
        old = BS.DefaultBlockStore.instance
        try:
            with env.quiet():
                store = BS.BlockStore(path)
            for k, x in enumerate(blocks):
                store.add_block_to_buffer(b.to_sk_block(x))
                if (k + 1) % how[0] == 0 and (how[1] is None or k + 1 < len(blocks)):
                    store.flush_blocks_to_disk()
            if how[1] is not None and store.write_buffer:
                store.connection = chainexec.FaultyConnection(store.connection, how[1])
                try:
                    store.flush_blocks_to_disk()
                except chainexec.DiskFull:
                    self.stats["restarts_after_failed_flush"] = self.stats.get("restarts_after_failed_flush", 0) + 1
                store.connection = store.connection.real
            else:
                store.flush_blocks_to_disk()
            store.close()
            with env.quiet():
                store2 = BS.BlockStore(path)
                BS.DefaultBlockStore.instance = store2
                cs = U.read_chain_from_disk()
            store2.close()
        except Exception as e:
            self.fail("restart", "restart-raised:" + type(e).__name__, "order %s: writing the blocks to the store and rebuilding the state from it raised %r" % (name, e))
            return None
        finally:
            BS.DefaultBlockStore.instance = old
        for x in blocks:
            if x.id() not in cs.block_by_hash:
                try:
                    cs = cs.add_block(b.to_sk_block(x), x.ts + 10 ** 6)
                except Exception as e:
                    self.fail("restart", "rejected-after-restart", "order %s: after a restart block %s, downloaded again, raised %r" % (name, x.id().hex()[:12], e))
                    return None
        self.stats["restarts"] = self.stats.get("restarts", 0) + 1
        self.check_state(cs, name)
        return cs

    def add_digest(self, digs, cs, name):
        try:
            digs.add(self.final_digest(cs))
        except Exception as e:
            # (check_state has normally said so already, with the block concerned)
            self.fail("balances", "ledger-query-raised", "order #%s: asking the final state for the unspent sets and balances of all its stored blocks raised %s" % (name, type(e).__name__))

    def final_digest(self, cs):
        """order-independent content: per-block unspent maps + balances (head/tips may legitimately differ by order)"""
        h = hashlib.sha256()
        for bid in sorted(cs.block_by_hash.keys()):
            h.update(bid)
            for ref, o in sorted(self.b.sk_utxo_plain(cs, bid).items()):
                h.update(ref[0] + str(ref[1]).encode() + str(o[0]).encode() + o[1])
        h.update(balances_digest(cs, list(cs.block_by_hash.keys())).encode())
        return h.hexdigest()


def execute(case, rnd_orders=None):
    """case: {"cfg", "ops", "orders": [[labels...]...] (optional: explicit orders)}"""
    c = Checker(case)
    if c.run0.degenerate():
        return c, [{"kind": "harness", "sig": "harness:honest-rejected", "msg": c.harness[0]}]
    labels = c.labels
    orders = case.get("orders")
    if orders is None:
        if len(labels) <= 6:
            orders = topo_orders(labels, c.parent)
            c.stats["exhaustive_order_sets"] = 1
        else:
            orders = [random_topo(rnd_orders, labels, c.parent) for _ in range(3)]
            ht = {l: c.led.nodes[c.world.blocks[l].id()].height for l in labels}
            orders.append(sorted(labels, key=lambda l: (ht[l], labels.index(l))))
        case = dict(case, orders=orders)
    import random
    wr = random.Random(len(labels))
    digs = set()
    for k, od in enumerate(orders):
        od = [l for l in od if l in c.world.blocks]
        validated = (k % 3 == 1) or len(orders) <= 4 and k == 0
        cs = c.deliver(od, validated, "#%d%s" % (k, "v" if validated else "n"), rnd=wr, snapshots=(k < 2), probe=(k in (0, 2)))
        if cs is not None:
            c.add_digest(digs, cs, k)
        if k == 0 and case.get("restart"):
            cs_r = c.restart(od, case["restart"], "#%d+restart" % k)
            if cs_r is not None:
                c.add_digest(digs, cs_r, "%d+restart" % k)
    if len(digs) > 1:
        c.fail("orders_disagree", "orders-disagree", "%d distinct ledger contents over %d arrival orders" % (len(digs), len(orders)))
    c.stats["orders"] = len(orders)
    # non-trivial: a fork whose branches contain different spends
    led = c.led
    tips = led.tips()
    spends = {}
    for t in tips:
        s = frozenset(tx.id() for bid in led.nodes[t].chain for tx in led.nodes[bid].blk.txs[1:])
        spends[t] = s
    c.nontrivial = len(tips) > 1 and len(set(spends.values())) > 1 and len(orders) >= 2
    c.case_out = case
    return c, c.fails


def run(shard, tier, seed):
    res = Result()
    n = 30 if tier == "quick" else 500
    found = {}

    @hypothesis.seed(env.subseed(seed, ID, shard["i"]))
    @settings(max_examples=n, deadline=None, database=None, suppress_health_check=list(hypothesis.HealthCheck),
              phases=[hypothesis.Phase.generate])
    @given(st.randoms(use_true_random=True), st.sampled_from(chainexec.CFGS), st.one_of(st.integers(3, 6), st.integers(7, 14 if tier == "quick" else 24)))
    def prop(rnd, cfg, nb):
        if shard["i"] == 15 and res.counters.get("trees", 0) % 4 == 0:
            # very long trees: more than 32 blocks on one line, dead branches left more than 30 blocks behind, late children of those
            case = chainexec.gen_case(rnd, cfg, 38 + nb % 8, 0.0, ["C01"], p_fork=0.2, p_deep_fork=0.25, deep_min=31, p_copy=0.1, p_tx=0.8, zero_rewards=True)
            res.count("trees_longer_than_32")
        else:
            case = chainexec.gen_case(rnd, cfg, nb, 0.0, ["C01"], p_fork=0.6, p_copy=0.25, p_same_cb=0.1, p_tx=0.75, zero_rewards=True)
        if rnd.random() < 0.5:
            case["restart"] = [rnd.choice([1, 2, 3, 100]), rnd.choice([None, None, 3, 4, 4, 5])]
        c, fails = execute(case, rnd)
        res.count("restarts", c.stats.get("restarts", 0))
        res.count("restarts_after_failed_flush", c.stats.get("restarts_after_failed_flush", 0))
        res.evaluations += c.stats.get("orders", 0)
        res.count("trees")
        res.count("orders_delivered", c.stats.get("orders", 0))
        res.count("trees_all_orders_enumerated", c.stats.get("exhaustive_order_sets", 0))
        if getattr(c, "nontrivial", False):
            res.nontrivial(env.digest(c.case_out))
            res.count("trees_with_divergent_forks")
        for f in fails:
            if f["kind"] == "harness":
                res.error(f["msg"])
                continue
            if f["sig"] not in found:
                found[f["sig"]] = (f, c.case_out)
        if res.counters["trees"] in (1, 9):
            res.sample({"cfg": case["cfg"], "tree": [(o["label"], o["parent"], len(o["txs"])) for o in case["ops"]],
                        "orders": c.stats.get("orders")})

    prop()
    from vf.shrink import shrink_list
    for sig, (f, case) in found.items():
        def still(orders):
            return bool(orders) and any(x["sig"] == sig for x in execute(dict(case, orders=orders))[1])
        orders = shrink_list(case["orders"], still, 15)
        res.fail(f["kind"], sig, f["msg"], dict(case, orders=orders))
    return res


def replay(case):
    import random
    return execute(case, random.Random(0))[1]
