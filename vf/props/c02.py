"""C02 -- no inflation: value conserved, issuance follows the subsidy schedule."""
import hypothesis
from hypothesis import given, settings, strategies as st

from vf import chainexec, env, refmodel as R
from vf.result import Result

ID = "C02"
LEVEL = "exploration"
FOCUS = ("C02",)
RULE = ("Hypothesis-drawn histories as for C01 but with the C02 part of the mutation catalogue (reward = allowed+1 / "
        "+k / claiming fees the block's transactions do not leave, output 0, output MAX+1, output 2^64-1, outputs = "
        "inputs+1, total MAX+1; plus the double-spend candidates of C01's catalogue, judged here only through the supply invariant) and boundary fees (0, 1, all-but-one) plus legal reward shapes (less, split, no outputs); a quarter "
        "of the histories start from a fabricated deep base just below a subsidy halving (heights 1,050,000*k - 1..3 for k in "
        "{1,2,3,29,30,31,63,64}) so that rewards are judged on both sides of an era boundary. "
        "Oracle: acceptance => reference value clauses (each output and the total in (0,MAX], outputs <= inputs, reward <= "
        "subsidy_ref(h) + fees against the PARENT's reference state); invariant on the code's own per-block maps after "
        "every accept: sum(unspent(b)) <= sum(unspent(parent)) + subsidy(h) and = reference sum and <= cumulative "
        "subsidy <= MAX. Plus validate_sashimi_range(v) accepts exactly 1..MAX over a boundary-heavy integer strategy. "
        "non-trivial = history with a value-mutated candidate or an accepted block whose reward differs from the "
        "subsidy (fees present); distinct = digest of the op list (range cases: distinct values).")
ASSUMPTIONS = ["test configuration (fast scrypt stand-in, no checkpoints, short retarget periods)",
               "reference validator in vf/refmodel.py"]
MIN_NONTRIVIAL = {"quick": 50, "thorough": 500}
CATS = ["C02", "C02", "C02", "C01"]


def shards(tier):
    return [{"kind": "hist", "i": i} for i in range(15)] + [{"kind": "range"}]


def run(shard, tier, seed):
    res = Result()
    if shard["kind"] == "hist":
        n = 25 if tier == "quick" else 400
        nb = (6, 14) if tier == "quick" else (6, 30)
        if shard["i"] == 14:
            # histories that grow enough unspent outputs for blocks with 16..24 payments (honest ones and ones that pay too much)
            return chainexec.drive(res, env.subseed(seed, ID, shard["i"]), n // 2, tier, FOCUS, CATS, ID, n_blocks=(22, 30), p_mut=0.5, p_restart=0.0,
                                   p_unusual=0.4, p_tx=0.4, p_fork=0.1, p_big_block=0.5)
        return chainexec.drive(res, env.subseed(seed, ID, shard["i"]), n, tier, FOCUS, CATS, ID, n_blocks=nb, p_mut=0.4, p_restart=0.08,
                               p_unusual=0.3, p_deep=0.25, deep_halving=True)
    env.import_repo()
    import skepticoin.consensus as C
    MAX = R.MAX_SASHIMI
    edge = [0, 1, 2, MAX - 1, MAX, MAX + 1, 1 << 48, 1 << 63, (1 << 63) - 1, (1 << 64) - 1, 1 << 64, -1, -MAX]
    seen = set()

    def check(v):
        res.evaluations += 1
        try:
            C.validate_sashimi_range(v)
            ok = True
        except C.ValidationError:
            ok = False
        if ok != (0 < v <= MAX):
            res.fail("range", "sashimi-range", "validate_sashimi_range(%d) accepted=%s" % (v, ok), {"value": v})
        if v not in seen and abs(v - MAX) < 1000 or abs(v) < 1000:
            seen.add(v)

    for v in edge:
        check(v)

    @hypothesis.seed(env.subseed(seed, ID, "range"))
    @settings(max_examples=20_000 if tier == "quick" else 300_000, deadline=None, database=None,
              suppress_health_check=list(hypothesis.HealthCheck), phases=[hypothesis.Phase.generate])
    @given(st.one_of(st.integers(-(1 << 65), 1 << 65), st.integers(-5, 5).map(lambda d: MAX + d), st.integers(-3, 10),
                     st.integers(0, 64).flatmap(lambda b: st.integers(-2, 2).map(lambda d: (1 << b) + d))))
    def prop(v):
        check(v)

    prop()
    res.digests.update("v%d" % v for v in seen)
    res.sample({"value": MAX, "accepted": True})
    res.sample({"value": MAX + 1, "accepted": False})
    return res


def replay(case):
    if "value" in case:
        env.import_repo()
        import skepticoin.consensus as C
        v = case["value"]
        try:
            C.validate_sashimi_range(v)
            ok = True
        except C.ValidationError:
            ok = False
        if ok != (0 < v <= R.MAX_SASHIMI):
            return [{"kind": "range", "sig": "sashimi-range", "msg": "validate_sashimi_range(%d) accepted=%s" % (v, ok)}]
        return []
    return chainexec.replay(case, FOCUS)
