"""C14 -- wallet builds exact, valid, non-overlapping spends or changes nothing (stateful, model-based)."""
import hypothesis
from hypothesis import settings, strategies as st
from hypothesis.stateful import RuleBasedStateMachine, initialize, rule, run_state_machine_as_test

from vf import chainexec, env, refmodel as R
from vf.keys import KEYS
from vf.result import Result, exc_sig
from vf.shrink import shrink_list

ID = "C14"
LEVEL = "exploration"
RULE = ("Hypothesis rule-based state machine: a generated ledger (forked history with spends spreading outputs over wallet and "
        "foreign keys) and a wallet of 1-6 keys; rules: spend(amount, fee) with amount/fee drawn below, at, one above and far "
        "above the spendable total; spend with an injected failure of the k-th signature (no transaction returned: the used-output "
        "record must be unchanged); confirm (mine a block containing a subset of the earlier successful spends); plain block; reorg "
        "(a competing branch forking 1-3 blocks below the head overtakes it, so that outputs appear and vanish). "
        "Model: spendable = wallet-owned unspent outputs at the head not used by an earlier SUCCESSFUL spend. Oracle: success "
        "iff spendable >= amount+fee; on success the transaction passes the node's by-itself and in-state validation and the "
        "reference checks (ecdsa under the owner's key over the blanked transaction), output 0 = (amount, recipient), change = "
        "inputs-amount-fee to the change key iff > 0, inputs within spendable, distinct, disjoint from earlier spends; on failure "
        "an exception and spent_transaction_outputs unchanged. non-trivial = sequence containing a failed attempt followed by an "
        "affordable request; distinct = digest of the op list.")
ASSUMPTIONS = ["test configuration (fast scrypt stand-in, checkpoints off)", "blocks of a reorganising branch carry no ordinary transactions"]
MIN_NONTRIVIAL = {"quick": 40, "thorough": 500}


class Exec:
    """plain executor over a JSON-able op list (the replay unit)"""

    def __init__(self, init):
        import random
        from skepticoin.wallet import Wallet
        self.init = init
        case = chainexec.gen_case(random.Random(init["hist_seed"]), tuple(init["cfg"]), init["n_blocks"], 0.0, ["C01"], p_tx=0.8, p_fork=0.25)
        self.run = chainexec.Run(case, ("C14",))
        self.run.execute()
        if self.run.degenerate():
            raise env.HarnessError(self.run.harness[0])
        self.wkeys = [KEYS[i] for i in init["wallet_keys"]]
        self.wallet = Wallet({k.pub: k.priv for k in self.wkeys}, [k.pub for k in self.wkeys], {})
        self.used = set()
        self.pending = []          # names of successful spends not yet confirmed
        self.n_tx = 0
        self.n_blk = 0
        self.fails = []
        self.flags = {"failed": False, "fail_then_affordable": False, "successes": 0, "failures": 0}

    def fail(self, kind, sig, msg):
        if not any(f["sig"] == sig for f in self.fails):
            self.fails.append({"kind": kind, "sig": sig, "msg": msg})

    def head(self):
        return self.run.world.uni.nodes[self.run.cs.current_chain_hash]

    def spendable(self):
        pubs = {k.pub for k in self.wkeys}
        return {ref: v for ref, (v, pk) in self.head().utxo.items() if pk in pubs and ref not in self.used}

    def amount(self, spec):
        """spec = [mode, a, b]: amount/fee relative to the spendable total"""
        total = sum(self.spendable().values())
        mode, a, b = spec
        if mode == "at":
            fee = min(b, max(total - 1, 0))
            return max(1, total - fee), fee
        if mode == "above1":
            fee = min(b, max(total - 1, 0))
            return max(1, total - fee + 1), fee
        if mode == "far":
            return total + 1 + a, b
        if mode == "frac":                       # below: a/1000 of the total
            amt = max(1, total * (1 + a % 999) // 1000)
            return amt, min(b, max(0, total - amt))
        if mode == "single":                     # exactly one output's value
            sp = sorted(self.spendable().values())
            amt = sp[a % len(sp)] if sp else 1
            return max(1, amt - min(b, amt - 1) if b % 2 else amt), (min(b, amt - 1) if b % 2 else 0)
        return max(1, a), b

    def step(self, op):
        from skepticoin.wallet import create_spend_transaction
        from skepticoin import consensus as C
        from skepticoin.signing import SECP256k1PublicKey
        b = self.run.build
        cs = self.run.cs
        if op[0] == "spend":
            _, spec, rcpt, chg = op
            amt, fee = self.amount(spec)
            sp = self.spendable()
            total = sum(sp.values())
            before = {(r.hash, r.index) for r in self.wallet.spent_transaction_outputs}
            affordable = total >= amt + fee
            if affordable and self.flags["failed"]:
                self.flags["fail_then_affordable"] = True
            try:
                tx = create_spend_transaction(self.wallet, cs, amt, fee, SECP256k1PublicKey(KEYS[rcpt].pub), SECP256k1PublicKey(KEYS[chg].pub))
            except Exception as e:
                self.flags["failures"] += 1
                self.flags["failed"] = True
                if affordable:
                    self.fail("refused", "affordable-spend-refused", "spendable %d >= amount %d + fee %d but the wallet raised %r" % (total, amt, fee, e))
                after = {(r.hash, r.index) for r in self.wallet.spent_transaction_outputs}
                if after != before:
                    self.fail("bookkeeping", "failed-call-changed-used-set", "failed spend (amount %d fee %d, spendable %d) changed spent_transaction_outputs (+%d)" % (amt, fee, total, len(after - before)))
                return
            self.flags["successes"] += 1
            if not affordable:
                self.fail("overspend", "unaffordable-spend-succeeded", "spendable %d < amount %d + fee %d but a transaction was returned" % (total, amt, fee))
            p = b.from_sk_tx(tx)
            refs = [(h, i) for (h, i, _s) in p.ins]
            if len(set(refs)) != len(refs):
                self.fail("inputs", "input-twice", "returned transaction spends an output twice")
            if any(r not in sp for r in refs):
                bad = [r for r in refs if r not in sp]
                why = "used by an earlier spend" if any(r in self.used for r in bad) else "not a spendable output of this wallet"
                self.fail("inputs", "input-not-spendable", "returned transaction spends an output that is %s" % why)
            tin = sum(self.head().utxo[r][0] for r in refs if r in self.head().utxo)
            want_outs = [(amt, KEYS[rcpt].pub)]
            if tin - amt - fee > 0:
                want_outs.append((tin - amt - fee, KEYS[chg].pub))
            if list(p.outs) != want_outs:
                self.fail("outputs", "outputs-not-exact", "outputs %s, expected amount %d to the recipient and change %d (inputs %d, fee %d)" % (
                    [v for v, _ in p.outs], amt, tin - amt - fee, tin, fee))
            try:
                C.validate_non_coinbase_transaction_by_itself(tx)
                C.validate_non_coinbase_transaction_in_coinstate(tx, cs.current_chain_hash, cs)
            except Exception as e:
                self.fail("invalid", "returned-transaction-invalid", "returned transaction fails the node's validation: %r" % e)
            msg = R.signing_message(p)
            from vf import keys as K
            for (h, i, s) in p.ins:
                o = self.head().utxo.get((h, i))
                if o is None or s[0] != "sig" or not K.verify(o[1], s[1], msg):
                    self.fail("invalid", "returned-transaction-bad-signature", "an input's signature does not verify under the spent output's key")
            if not set(refs) <= {(r.hash, r.index) for r in self.wallet.spent_transaction_outputs}:
                self.fail("bookkeeping", "used-outputs-not-recorded", "inputs of a successful spend are not in spent_transaction_outputs")
            self.used.update(refs)
            self.n_tx += 1
            name = "w%d" % self.n_tx
            self.run.world.txs[name] = p
            self.pending.append(name)
        elif op[0] == "spend_fault":
            # fault injection: the k-th signature of this spend fails (an exception during signing).  The wallet did not
            # return a transaction, so its record of used outputs must be what it was, and the same request must succeed next.
            import ecdsa
            _, spec, rcpt, chg, kth = op
            amt, fee = self.amount(spec)
            sp = self.spendable()
            if sum(sp.values()) < amt + fee:
                return
            before = {(r.hash, r.index) for r in self.wallet.spent_transaction_outputs}
            orig_sign = ecdsa.SigningKey.sign
            calls = {"n": 0}

            class SigningFault(Exception):
                pass

            def failing_sign(sk, *a, **kw):
                calls["n"] += 1
                if calls["n"] == 1 + kth % 3:
                    raise SigningFault()
                return orig_sign(sk, *a, **kw)

            ecdsa.SigningKey.sign = failing_sign
            raised = False
            try:
                try:
                    create_spend_transaction(self.wallet, cs, amt, fee, SECP256k1PublicKey(KEYS[rcpt].pub), SECP256k1PublicKey(KEYS[chg].pub))
                except SigningFault:
                    raised = True
            finally:
                ecdsa.SigningKey.sign = orig_sign
            if not raised:
                # fewer signatures than k were needed: the call succeeded normally -> account for it as a success
                self.flags["successes"] += 1
                tx_refs = set(sp) & {(r.hash, r.index) for r in self.wallet.spent_transaction_outputs}
                self.used.update(tx_refs - before)
                return
            self.flags["signing_faults"] = self.flags.get("signing_faults", 0) + 1
            after = {(r.hash, r.index) for r in self.wallet.spent_transaction_outputs}
            if after != before:
                self.fail("bookkeeping", "failed-signing-changed-used-set", "a spend that failed while signing (no transaction returned) left %d output(s) marked as used" % len(after - before))
        elif op[0] in ("confirm", "block"):
            self.n_blk += 1
            take = []
            if op[0] == "confirm":
                take = [n for k, n in enumerate(self.pending) if (op[1] >> k) & 1 or op[1] == 0]
            label = "m%d" % self.n_blk
            parent = next(l for l, blk in self.run.world.blocks.items() if blk.id() == cs.current_chain_hash)
            bop = {"label": label, "parent": parent, "miner": op[2] % len(KEYS), "dt": self.run.world.safe_dt(self.head(), 120), "txs": [{"copy": n} for n in take]}
            self.run.case = {"cfg": self.run.case["cfg"], "ops": [bop]}
            n0 = len(self.run.fails)
            self.run.execute()
            if label in self.run.world.blocks:
                self.pending = [n for n in self.pending if n not in take]
            elif take and not self.fails:
                self.fail("invalid", "wallet-transactions-not-minable", "a block containing the wallet's successful spends was rejected: %s" % (self.run.harness[-1:] or "?"))
                self.run.harness.clear()


        elif op[0] == "send_script":
            # the command-line path: `skepticoin-send <amount> <skepticoin|sashimi> <address>` run as the next process on the saved
            # wallet file, with the node's networking replaced by a recorder.  Only when no earlier spend is still unconfirmed
            # (the wallet file does not remember used outputs).
            import io
            import os
            import sys
            from skepticoin import wallet as W
            from skepticoin.scripts import send as SEND
            _, unit, a, rcpt = op
            if self.pending:
                return
            # a NEW process: it knows the wallet file and the chain, not which outputs an earlier process used (those spends are
            # all confirmed here; outputs that a reorganisation un-spent are spendable again for it)
            self.used = set()
            sp = self.spendable()
            total = sum(sp.values())
            if unit == "skepticoin":
                coins = 1 + a % 12
                value, argv_amount = coins * 100_000_000, coins
            else:
                value = max(1, total * (1 + a % 997) // 1000) if a % 5 else total + 1 + a % 1000
                argv_amount = value
            affordable = total >= value
            cs_now = cs
            sent = []

            class _NM:
                def broadcast_transaction(self_, t):
                    sent.append(t)

            class _CM:
                coinstate = cs_now

            class _LP:
                network_manager, chain_manager = _NM(), _CM()

            class _Thread:
                local_peer = _LP()

                def stop(self_):
                    pass

                def join(self_):
                    pass

            def _sleep(sec):
                raise KeyboardInterrupt()

            names = ["check_chain_dir", "read_chain_from_disk", "start_networking_peer_in_background", "wait_for_fresh_chain", "configure_logging_from_args", "sleep", "open_or_init_wallet"]
            for nme in names:
                if not hasattr(SEND, nme):
                    raise env.HarnessError("scripts.send.%s missing" % nme)
            saved = {nme: getattr(SEND, nme) for nme in names}
            cwd = os.getcwd()
            os.chdir(env.fresh_subdir("c14send"))
            argv, out_, old_stdout = sys.argv, io.StringIO(), sys.stdout
            err = None
            try:
                W.save_wallet(self.wallet)
                SEND.check_chain_dir = lambda: None
                SEND.read_chain_from_disk = lambda: cs_now
                SEND.start_networking_peer_in_background = lambda args, coinstate: _Thread()
                SEND.wait_for_fresh_chain = lambda *a_, **k_: None
                SEND.configure_logging_from_args = lambda args: None
                SEND.sleep = _sleep
                sys.argv = ["skepticoin-send", str(argv_amount), unit, "SKE" + KEYS[rcpt].pub.hex() + "PTI"]
                sys.stdout = out_
                try:
                    SEND.main()
                except SystemExit as e:
                    err = e
                except Exception as e:
                    err = e
                finally:
                    sys.argv, sys.stdout = argv, old_stdout
                with open("wallet.json") as fh:
                    w2 = W.Wallet.load(fh)
            finally:
                for nme, v in saved.items():
                    setattr(SEND, nme, v)
                os.chdir(cwd)
            self.flags["send_script_runs"] = self.flags.get("send_script_runs", 0) + 1
            what = "skepticoin-send %s %s" % (argv_amount, unit)
            if not affordable:
                if sent:
                    self.fail("overspend", "unaffordable-spend-succeeded", "%s: spendable %d < %d but a transaction was broadcast" % (what, total, value))
                self.wallet = w2
                return
            if len(sent) != 1:
                self.fail("refused", "affordable-spend-refused", "%s: spendable %d >= %d but the script broadcast %d transaction(s) (%r)" % (what, total, value, len(sent), err))
                self.wallet = w2
                return
            p = b.from_sk_tx(sent[0])
            refs = [(h, i) for (h, i, _s) in p.ins]
            tin = sum(self.head().utxo[r][0] for r in refs if r in self.head().utxo)
            if any(r not in sp for r in refs) or len(set(refs)) != len(refs):
                self.fail("inputs", "input-not-spendable", "%s: the broadcast transaction spends an output that is not a spendable output of this wallet" % what)
            if not p.outs or p.outs[0] != (value, KEYS[rcpt].pub):
                self.fail("outputs", "outputs-not-exact", "%s: the recipient is paid %s, the user asked for %d sashimi" % (what, p.outs[0][0] if p.outs else None, value))
            elif tin - value > 0 and (len(p.outs) != 2 or p.outs[1][0] != tin - value or p.outs[1][1] not in w2.keypairs):
                self.fail("outputs", "outputs-not-exact", "%s: change %s, expected %d to a key of the wallet" % (what, [v for v, _ in p.outs[1:]], tin - value))
            elif tin - value == 0 and len(p.outs) != 1:
                self.fail("outputs", "outputs-not-exact", "%s: a change output although nothing is left over" % what)
            try:
                C.validate_non_coinbase_transaction_by_itself(sent[0])
                C.validate_non_coinbase_transaction_in_coinstate(sent[0], cs.current_chain_hash, cs)
            except Exception as e:
                self.fail("invalid", "returned-transaction-invalid", "%s: the broadcast transaction fails the node's validation: %r" % (what, e))
            self.wallet = w2
            if any(k_.pub not in {kk.pub for kk in self.wkeys} for k_ in KEYS if k_.pub in w2.keypairs):
                pass
            # (not recorded as "used by this wallet": the process that made the spend is gone; it is mined at once, and if a
            # reorganisation un-spends its inputs later they are legitimately spendable again for the wallet object that follows)
            self.n_tx += 1
            name = "w%d" % self.n_tx
            self.run.world.txs[name] = p
            self.pending.append(name)
            if not self.fails:
                self.step(["confirm", 0, rcpt])
        elif op[0] == "reorg":
            # a competing branch, forking `depth` blocks below the head, overtakes the active chain: outputs created on the
            # abandoned branch vanish, outputs spent there are unspent again -- the wallet must follow the NEW head
            _, depth, miner = op
            head = self.head()
            d = min(1 + depth % 3, head.height - 1)
            if d < 1:
                return
            anc = self.run.world.uni.nodes[head.chain[head.height - d]]
            plabel = next(l for l, blk in self.run.world.blocks.items() if blk.id() == anc.id)
            for j in range(d + 1):
                self.n_blk += 1
                label = "r%d" % self.n_blk
                pnode = self.run.world.uni.nodes[self.run.world.blocks[plabel].id()]
                bop = {"label": label, "parent": plabel, "miner": (miner + j) % len(KEYS), "dt": self.run.world.safe_dt(pnode, 90), "txs": []}
                self.run.case = {"cfg": self.run.case["cfg"], "ops": [bop]}
                self.run.execute()
                if label not in self.run.world.blocks or self.run.world.blocks[label].id() not in self.run.world.uni.nodes:
                    self.run.harness.clear()
                    return
                plabel = label
            if self.run.cs.current_chain_hash != self.run.world.blocks[plabel].id():
                raise env.HarnessError("the longer branch did not become the head")
            self.flags["reorgs"] = self.flags.get("reorgs", 0) + 1
            utxo = self.head().utxo
            self.pending = [n for n in self.pending if all((h, i) in utxo for (h, i, _s) in self.run.world.txs[n].ins)]


def gen_init(draw_int, rnd=None):
    return None


class Machine(RuleBasedStateMachine):
    res = None
    found = None

    def __init__(self):
        super().__init__()
        self.ex = None
        self.ops = []
        self.dead = False

    @initialize(hist_seed=st.integers(0, 1 << 30), cfg=st.sampled_from(chainexec.CFGS[:3]), n_blocks=st.integers(4, 10),
                wk=st.lists(st.integers(0, len(KEYS) - 1), min_size=1, max_size=6, unique=True))
    def setup(self, hist_seed, cfg, n_blocks, wk):
        self.init = {"hist_seed": hist_seed, "cfg": list(cfg), "n_blocks": n_blocks, "wallet_keys": wk}
        self.ex = Exec(self.init)

    def do(self, op):
        if self.dead or self.ex is None:
            return
        self.ops.append(op)
        Machine.res.evaluations += 1
        try:
            self.ex.step(op)
        except env.HarnessError:
            raise
        except Exception as e:
            if exc_sig(e).endswith("@None"):          # raised by the harness itself (no frame of the code under test)
                Machine.res.error("executor raised %r" % (e,))
                self.dead = True
            else:
                self.ex.fail("exception", "exc:" + exc_sig(e), "op %s raised %r" % (op[0], e))
        if self.ex.fails:
            self.dead = True

    @rule(mode=st.sampled_from(["at", "above1", "far", "frac", "frac", "single", "abs"]), a=st.integers(0, 10 ** 9), b=st.sampled_from([0, 0, 1, 7, 1000, 10 ** 6]),
          rcpt=st.integers(0, len(KEYS) - 1), chg=st.integers(0, len(KEYS) - 1))
    def spend(self, mode, a, b, rcpt, chg):
        self.do(["spend", [mode, a, b], rcpt, chg])

    @rule(mode=st.sampled_from(["at", "frac", "frac", "single"]), a=st.integers(0, 10 ** 9), b=st.sampled_from([0, 1, 7]),
          rcpt=st.integers(0, len(KEYS) - 1), chg=st.integers(0, len(KEYS) - 1), kth=st.integers(0, 2))
    def spend_fault(self, mode, a, b, rcpt, chg, kth):
        self.do(["spend_fault", [mode, a, b], rcpt, chg, kth])

    @rule(mask=st.integers(0, 15), miner=st.integers(0, 7))
    def confirm(self, mask, miner):
        self.do(["confirm", mask, miner])

    @rule(miner=st.integers(0, 7))
    def block(self, miner):
        self.do(["block", 0, miner])

    @rule(unit=st.sampled_from(["skepticoin", "sashimi", "sashimi"]), a=st.integers(0, 10 ** 6), rcpt=st.integers(0, len(KEYS) - 1))
    def send_script(self, unit, a, rcpt):
        self.do(["send_script", unit, a, rcpt])

    @rule(depth=st.integers(0, 2), miner=st.integers(0, 7))
    def reorg(self, depth, miner):
        self.do(["reorg", depth, miner])

    def teardown(self):
        if self.ex is None:
            return
        res = Machine.res
        case = {"init": self.init, "ops": self.ops}
        res.count("machines")
        res.count("spend_successes", self.ex.flags["successes"])
        res.count("spend_failures", self.ex.flags["failures"])
        res.count("reorgs", self.ex.flags.get("reorgs", 0))
        res.count("send_script_runs", self.ex.flags.get("send_script_runs", 0))
        res.count("signing_faults", self.ex.flags.get("signing_faults", 0))
        if self.ex.flags["fail_then_affordable"]:
            res.nontrivial(env.digest(case))
            res.count("machines_fail_then_affordable")
        if res.counters["machines"] in (2, 11):
            res.sample(case)
        for f in self.ex.fails:
            if f["sig"] not in Machine.found:
                Machine.found[f["sig"]] = (f, case)


def execute(case):
    ex = Exec(case["init"])
    for op in case["ops"]:
        ex.step(op)
        if ex.fails:
            break
    return ex.fails


def shards(tier):
    return [{"kind": "sm", "i": i} for i in range(16)]


def run(shard, tier, seed):
    res = Result()
    Machine.res = res
    Machine.found = {}
    n = 50 if tier == "quick" else 600
    steps = 12 if tier == "quick" else 25
    run_state_machine_as_test(
        hypothesis.seed(env.subseed(seed, ID, shard["i"]))(Machine),
        settings=settings(max_examples=n, stateful_step_count=steps, deadline=None, database=None,
                          suppress_health_check=list(hypothesis.HealthCheck), phases=[hypothesis.Phase.generate]))
    for sig, (f, case) in Machine.found.items():
        def still(ops):
            return any(x["sig"] == sig for x in execute({"init": case["init"], "ops": ops}))
        ops = shrink_list(case["ops"], still, 20)
        res.fail(f["kind"], sig, f["msg"], {"init": case["init"], "ops": ops})
    return res


def replay(case):
    return execute(case)
