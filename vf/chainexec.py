"""Shared generator wiring + executor for the full-validation properties (C01, C02, C05.2): histories of candidate
blocks (honest and with exactly one rule broken) offered to CoinState.add_block, judged by the reference validator."""
import hypothesis
from hypothesis import given, settings, strategies as st

from vf import env, refmodel as R
from vf.result import Result, exc_sig
from vf.shrink import shrink_list

CFGS = [(3, 360), (5, 600), (8, 960), (R.REAL_PERIOD, R.REAL_TIMESPAN)]


def gen_deep(rnd, halving=False, vlq_edge=False):
    """parameters of a fabricated deep base just below a REAL retarget boundary (period 10,080), or -- halving=True --
    just below a subsidy halving (1,050,000 * k)"""
    k = rnd.choice([17, 17, 20, 100, 400])
    below = rnd.choice([1, 2, 3, 3])
    H = R.REAL_PERIOD * k - below
    if halving:
        H = R.HALVING * rnd.choice([1, 1, 2, 3, 29, 30, 31, 63, 64]) - rnd.choice([1, 1, 2, 3])
    if vlq_edge:
        # heights whose deployed encoding carries a leading 0x80 octet (bit length a multiple of 7)
        H = rnd.choice([rnd.randrange(64, 120), rnd.randrange(8192, 16000), rnd.randrange(1 << 20, (1 << 21) - 20)])
    tip_ts = 1_700_000_000 + rnd.randrange(0, 10 ** 6)
    f = rnd.choice([0.25, 0.5, 1.0, 1.0, 2.0, 4.0, 16.0])
    texp = rnd.choice([250, 252, 254, 254])
    return {"H": H, "tip_ts": tip_ts, "target": (1 << texp).to_bytes(32, "big").hex(),
            "special": {str(R.REAL_PERIOD * (k - 1)): tip_ts - int(R.REAL_TIMESPAN * f) + rnd.randrange(-500, 500)}}


def deep_ts_at(deep):
    sp = {int(k): v for k, v in deep["special"].items()}
    return lambda h: sp.get(h, deep["tip_ts"] - 10_000_000 + h % 16)


def gen_case(rnd, cfg, n_blocks, p_mut, cats, deep=None, **opts):
    """label-level generation only (no code under test involved)"""
    from vf.histgen import Gen
    from vf import build
    opts = dict(opts)
    mix = opts.pop("dts_mix", None)
    p_restart = opts.pop("p_restart", 0.0)     # the node is restarted: its chain state is rebuilt from the block store
    p_twin = opts.pop("p_twin", 0.0)           # twins are requested by the full-validation checks (drive), not by other users
    if mix:
        opts["dts"] = mix[rnd.randrange(len(mix))]        # None = the default spread (1 s .. 10^6 s)
    if deep is None:
        g0 = R.dec_block(build.GENESIS)[0]
        gen = Gen(rnd, g0.ts, int.from_bytes(g0.target, "big"), cfg[0], cfg[1], **opts)
    else:
        gen = Gen(rnd, deep["tip_ts"], int(deep["target"], 16), cfg[0], cfg[1], base_height=deep["H"],
                  base_ts_at=deep_ts_at(deep), **opts)
    ops = []
    for _ in range(n_blocks):
        op, fees = gen.honest_block()
        if rnd.random() < (p_mut if len(ops) >= 2 else p_mut / 3):
            m = None
            for _try in range(8):
                m = gen.mutate(op, fees, cats)
                if m is not None:
                    break
            if m is not None:
                mop, tag = m
                mop["mut"] = tag
                mop["form"] = "bytes" if rnd.random() < 0.5 else "obj"
                ops.append(mop)
                if rnd.random() < 0.5:
                    continue                  # only the broken candidate is offered for this slot
        if deep is not None and deep.get("vlq_edge") and rnd.random() < 0.5:
            import copy
            sop = copy.deepcopy(op)
            sop.update(mut="C05:short_height_encoding", raw_edit="short_height", form="bytes")
            ops.append(sop)                         # the same block, its height written without the leading 0x80 octet
        op["form"] = "bytes" if rnd.random() < 0.3 else "obj"
        ops.append(op)
        gen.commit(op, fees)
        if deep is None and len(ops) >= 3 and rnd.random() < p_restart * (2.5 if op["txs"] else 1.0):    # preferably right after a block with payments
            ops.append({"label": "restart%d" % len(ops), "parent": "g", "txs": [], "miner": 0,
                        "restart": [rnd.choice([1, 1, 2, 3, 100]), rnd.randrange(2), rnd.choice([None, None, 1, 2, 3, 4, 4, 5, 6])]})
        if rnd.random() < p_twin:
            # the header of the block just offered, carried by an edited transaction list (same id, different content)
            ops.append({"label": op["label"] + "~", "parent": op["parent"], "twin_of": op["label"], "mut": "twin", "txs": [], "miner": op["miner"],
                        "edit": rnd.choice(["reward_big", "reward_second_output", "drop_last", "dup_last", "foreign", "swap"]),
                        "form": "bytes" if rnd.random() < 0.5 else "obj"})
    out = {"cfg": list(cfg), "ops": ops}
    if deep is not None:
        out["deep"] = deep
    elif rnd.random() < 0.5:
        out["horizon"] = 0          # the checkpoint horizon sits AT genesis: height 1 is the first fully validated height
    return out


class DiskFull(Exception):
    pass


class FaultyConnection:
    """sqlite connection whose k-th statement (counting execute/executemany calls on its cursors, 0 = BEGIN) raises, as
    sqlite does when the disk is full.  A fault in the ENVIRONMENT, not in the code under test."""

    def __init__(self, real, k):
        self.real, self.k, self.n = real, k, 0

    def cursor(self):
        conn, cur = self, self.real.cursor()

        class Cur:
            def execute(self, *a):
                return conn._do(cur.execute, a)

            def executemany(self, *a):
                return conn._do(cur.executemany, a)

            def close(self):
                return cur.close()

            def __getattr__(self, name):
                return getattr(cur, name)
        return Cur()

    def _do(self, fn, a):
        self.n += 1
        if self.n - 1 == self.k:
            import sqlite3
            raise DiskFull(sqlite3.OperationalError("database or disk is full"))
        return fn(*a)

    def close(self):
        return self.real.close()

    def __getattr__(self, name):
        return getattr(self.real, name)


class Refused(Exception):
    pass


class NodeState:
    """stands in for the CoinState of a Run: add_block DELIVERS the block to a simulated node as an unsolicited data message
    from a peer (the relay path, with its rollback); every other attribute is read from the chain state the node serves at
    that moment.  open_request=True: the node has an unanswered block request (GetBlocks) outstanding with that very peer."""

    def __init__(self, open_request=False):
        env.import_networking()
        from vf import simnet
        from skepticoin.coinstate import CoinState
        from skepticoin.networking import messages as M
        self.simnet, self.M = simnet, M
        simnet.install()
        self.net = simnet.Net()
        self.node = self.net.add("n", "10.0.0.1", CoinState.zero(), 3)
        self.n_wires = 0
        self.open_request = open_request
        self.opened = 0
        self.connect()

    def connect(self):
        self.n_wires += 1
        self.wire = self.simnet.Wire(self.net, self.node, host="10.0.4.%d" % (self.n_wires % 200 + 2))
        self.wire.greet()
        if self.open_request:
            n0 = len(self.wire.received)
            self.node.cm.started_at = self.simnet.CLOCK.now          # start-up phase: the node fetches actively
            self.net.step(self.node)
            self.net.drain(None, only=[self.node])
            self.wire.collect()
            if any(isinstance(m, self.M.GetBlocksMessage) for _h, m in self.wire.received[n0:]):
                self.opened += 1

    def add_block(self, skb, now):
        self.simnet.CLOCK.now = now
        if not self.wire.connected:
            self.connect()
        before = self.node.cm.coinstate.block_by_hash.get(skb.hash())
        self.wire.send(self.M.DataMessage(self.M.DATA_BLOCK, skb))
        self.wire.deliver()
        self.net.drain(None, only=[self.node])
        after = self.node.cm.coinstate.block_by_hash.get(skb.hash())
        if after is not None and (before is None or after.serialize() != before.serialize()) and after.serialize() == skb.serialize():
            return self
        raise Refused("the node did not take the delivered block into its chain state")

    def __getattr__(self, name):
        return getattr(self.node.cm.coinstate, name)


class Run:
    """executes a case against the code under test; collects failures (kind, sig, msg)"""

    def __init__(self, case, focus):
        from vf import build
        env.use_fast_pow(horizon=case.get("horizon", -1))
        env.set_retarget(case["cfg"][0], case["cfg"][1])
        self.build = build
        self.case = case
        self.focus = focus                     # clause prefixes this check owns, e.g. ("C01",)
        from skepticoin.coinstate import CoinState
        from skepticoin.datatypes import Block
        self.Block = Block
        cfg = R.Config(case["cfg"][0], case["cfg"][1])
        if case.get("deep"):
            from vf import deepbase
            d = case["deep"]
            led, tip, self.cs = deepbase.make(d["H"], d["tip_ts"], bytes.fromhex(d["target"]),
                                              {int(k): v for k, v in d["special"].items()}, cfg)
            self.world = build.World(cfg, uni=led)
        else:
            self.world = build.World(cfg)
            self.cs = CoinState.zero()
            if case.get("relay"):
                self.cs = NodeState(open_request=bool(case["relay"].get("open_request")))
        self.fails = []
        self.before = {}
        self.stats = {}
        self.nontrivial = False
        self.harness = []

    def stat(self, k, n=1):
        self.stats[k] = self.stats.get(k, 0) + n

    def _rebuilt_state_incomplete(self, blk):
        held = self.cs.block_by_hash
        if blk.prev not in held:
            return True
        return any(bid not in held for bid in self.world.uni.nodes)

    def degenerate(self):
        """An honest candidate that the code refuses is left out of the history (the reference ledger does not adopt it
        either), so a check that uses the history as SETUP can go on; refusing valid blocks is judged by the properties that
        talk about it (C04 arrivals, C05/C12 own assembly, C10 convergence).  Only when a large part of the history is
        refused is the setup useless: that is a harness error."""
        return len(self.harness) > max(1, self.stats.get("candidates", 0) // 3)

    def fail(self, kind, sig, msg):
        self.fails.append({"kind": kind, "sig": sig, "msg": msg})

    def sums(self, cs, bid):
        return sum(o.value for o in cs.unspent_transaction_outs_by_hash[bid].values())

    def twin(self, op):
        base = self.world.blocks[op["twin_of"]]
        if base.id() not in self.world.uni.nodes:
            raise KeyError("twin of a block that was not accepted")
        txs = list(base.txs)
        cb = txs[0]
        e = op["edit"]
        if e == "reward_big" or (e in ("drop_last", "swap") and len(txs) < (2 if e == "drop_last" else 3)):
            txs[0] = R.RTx(cb.ins, [(cb.outs[0][0] + 10 ** 10, cb.outs[0][1])] + list(cb.outs[1:]))
        elif e == "reward_second_output":
            txs[0] = R.RTx(cb.ins, list(cb.outs) + [cb.outs[0]])
        elif e == "drop_last":
            txs = txs[:-1]
        elif e == "dup_last":
            txs = txs + [txs[-1]]
        elif e == "swap":
            txs[-1], txs[-2] = txs[-2], txs[-1]
        elif e == "foreign":
            names = sorted(n for n, t in self.world.txs.items() if all(t.id() != x.id() for x in txs))
            txs = txs + [self.world.txs[names[len(names) // 2]]]
        self.stat("twins")
        return R.RBlock(base.height, base.prev, base.merkle, base.ts, base.target, base.nonce, base.ev, txs)

    def restart(self, how):
        """The node is stopped and started again: every block accepted so far is written to a fresh block store (in arrival
        order, `how[0]` blocks per flush), the store is reopened and the chain state is rebuilt from it by the start-up code.
        The history then continues on the REBUILT state; the reference ledger is unaffected.  Skipped on fabricated deep bases."""
        import os
        from skepticoin import blockstore as BS
        from skepticoin.scripts import utils as U
        led = self.world.uni
        if self.case.get("deep") or isinstance(self.cs, NodeState):
            return
        blocks = [led.nodes[i].blk for i in led.order[1:]]
        txids = [t.id() for x in [led.genesis.blk] + blocks for t in x.txs]
        if len(set(txids)) != len(txids):
            self.stat("restarts_with_a_transaction_id_in_two_blocks")      # (was skipped while store finding C08-F1 was open)
        d = env.fresh_subdir("restart")
        path = os.path.join(d, "chain.db")
        old = BS.DefaultBlockStore.instance
        try:
            with env.quiet():
                store = BS.BlockStore(path)
            fault_at = how[2] if len(how) > 2 else None
            for k, x in enumerate(blocks):
                skb = self.build.to_sk_block(x) if how[1] == 0 else self.Block.deserialize(x.raw())
                store.add_block_to_buffer(skb)
                if (k + 1) % how[0] == 0 and (fault_at is None or k + 1 < len(blocks)):
                    store.flush_blocks_to_disk()
            if fault_at is not None and store.write_buffer:
                # the disk fills up during the LAST flush before the process dies: its k-th SQL statement raises
                store.connection = FaultyConnection(store.connection, fault_at)
                try:
                    store.flush_blocks_to_disk()
                except DiskFull:
                    self.stat("restart_after_failed_flush")
                store.connection = store.connection.real
            else:
                store.flush_blocks_to_disk()
            store.close()
            with env.quiet():
                store2 = BS.BlockStore(path)
                BS.DefaultBlockStore.instance = store2
                self.restart_order = [x.hash() for x in store2.read_blocks_from_disk()]     # the order in which start-up sees them
                cs = U.read_chain_from_disk()
            store2.close()
        finally:
            BS.DefaultBlockStore.instance = old
        # blocks that did not reach the disk (failed last flush) are downloaded again, through full validation
        for x in blocks:
            if x.id() not in cs.block_by_hash:
                try:
                    cs = cs.add_block(self.build.to_sk_block(x), x.ts)
                    self.restart_order.append(x.id())
                    self.stat("restart_blocks_downloaded_again")
                except Exception:
                    self.stat("restart_redelivery_refused")
        self.cs = cs
        self.stat("restarts")

    def probe_other_interval_starts(self, op, blk, now):
        """An honest candidate at a retarget boundary was REFUSED.  Which target does the code want instead?  Offer the same
        block with the target the rule would give from every OTHER stored block at the interval-start height (another
        branch's ancestors): if one of them is accepted, the code prescribes the target from a chain that is not the block's own."""
        import copy
        period = self.case["cfg"][0]
        if blk.height % period != 0 or blk.height - period < 0:
            return
        led = self.world.uni
        parent = led.nodes.get(blk.prev)
        if parent is None:
            return
        sh = blk.height - period
        try:
            own = parent.chain[sh]
        except Exception:
            return
        k = 0
        for nid, n in list(led.nodes.items()):
            if n.height != sh or nid == own:
                continue
            alt = R.retarget(parent.blk.target, max(1, blk.ts - n.blk.ts), self.world.cfg.timespan)
            if alt == blk.target:
                continue
            k += 1
            op2 = copy.deepcopy(op)
            op2.update(label="%s?%d" % (op["label"], k), probe=True, mut="C05:target_other_chain", form="obj")
            op2.setdefault("hdr", {})["target"] = ["hex", alt.hex()]
            op2["txs"] = [{"copy": t["name"]} if isinstance(t, dict) and "name" in t and t["name"] in self.world.txs else t for t in op2.get("txs", [])]
            try:
                cand = self.world.build_block(op2)
            except Exception:
                continue
            if cand is None:
                continue
            self.stat("probes_other_interval_start")
            try:
                self.cs.add_block(self.build.to_sk_block(cand), now)
            except Exception:
                continue
            self.fail("accepted_invalid", "accepted:C05:target", "the honest candidate %s at a retarget boundary was refused, but the same block with the target computed from ANOTHER branch's interval start (%s) was accepted" % (
                op["label"], nid.hex()[:12]))
            return

    def execute(self):
        b = self.build
        for op in self.case["ops"]:
            if "restart" in op:
                self.restart(op["restart"])
                continue
            if op["parent"] not in self.world.blocks or self.world.blocks[op["parent"]].id() not in self.world.uni.nodes:
                self.stat("skipped_missing_parent")
                continue
            try:
                blk = self.twin(op) if "twin_of" in op else self.world.build_block(op)
            except (KeyError, IndexError, ZeroDivisionError):
                self.stat("skipped_unbuildable")       # happens only in shrunk cases (a referenced op was removed)
                continue
            if blk is None:
                self.stat("unminable")
                continue
            now = blk.ts + op.get("now_off", 0)
            verdict = self.world.uni.validate(blk, now)
            tag = op.get("mut")
            form = op.get("form", "obj")
            skb = None
            if op.get("raw_edit") == "short_height":
                canon = R.vlq(blk.height)
                raw = blk.raw()
                if canon[0] != 0x80:
                    self.stat("raw_edit_not_applicable")
                    continue
                alt = raw[:1] + canon[1:] + raw[1 + len(canon):]
                self.stat("candidates")
                self.stat("mut:" + tag)
                try:
                    skb = self.Block.deserialize(alt)
                    cs_alt = self.cs.add_block(skb, now)
                except Exception:
                    self.stat("rejected")
                    continue
                if set(self.focus) & {"C05", "C07"}:
                    self.fail("accepted_invalid", "accepted:C05:non-canonical-height-encoding",
                              "a block whose height is written in a non-deployed (shorter) form was accepted under id %s; the id of its canonical header is %s, target %s" % (
                                  skb.hash().hex()[:16], blk.id().hex()[:16], blk.target.hex()[:8]))
                continue
            if form == "bytes":
                try:
                    skb = self.Block.deserialize(blk.raw())
                except Exception:
                    skb = None
            if skb is None:
                skb = b.to_sk_block(blk)
            before = b.coinstate_digest(self.cs)
            cs2, err = None, None
            try:
                cs2 = self.cs.add_block(skb, now)
            except Exception as e:          # "rejected" is "raised" (any exception)
                err = e
            after = b.coinstate_digest(self.cs)
            self.stat("candidates")
            if tag:
                self.stat("mut:" + tag)
                self.stat("mutated")
            has_forks = len(self.world.uni.tips()) > 1
            if before != after and not (isinstance(self.cs, NodeState) and cs2 is not None):
                # (on the relay path the "receiver" is the node: its served state legitimately changes when it accepts)
                if "C01" in self.focus:
                    self.fail("state_changed", "state-changed-by-attempt",
                              "receiver state changed by add_block(%s) (%s)" % (op["label"], "accepted" if cs2 else "rejected: %r" % err))
            if cs2 is not None:
                self.stat("accepted")
                if "C02" in self.focus:
                    # the supply invariant is judged on the code's OWN maps for every accepted block, whatever the reference
                    # validator says about the block (a double spend that is let through shows up here as created value)
                    try:
                        bid_ = skb.hash()
                        s_new, s_par = self.sums(cs2, bid_), self.sums(cs2, blk.prev)
                        if s_new > s_par + R.subsidy(blk.height):
                            self.fail("inflation", "supply-grew-more-than-subsidy",
                                      "sum(unspent after %s)=%d > sum(parent)=%d + subsidy %d (mut=%s)" % (op["label"], s_new, s_par, R.subsidy(blk.height), tag))
                    except KeyError:
                        pass
                if verdict:
                    mine = [c for c in verdict if c.split(":")[0] in self.focus]
                    if mine:
                        self.fail("accepted_invalid", "accepted:" + mine[0],
                                  "add_block accepted %s (mut=%s) although the reference validator finds %s" % (op["label"], tag, verdict))
                    else:
                        self.stat("other_property_disagreement")
                    continue                                   # never adopt a state the reference refuses
                if "C05" in self.focus and (skb.hash() != blk.id() or not skb.hash() < blk.target):
                    self.fail("accepted_invalid", "accepted:C05:reported-id-not-below-target", "accepted block %s is known under id %s (canonical header id %s, target %s)" % (
                        op["label"], skb.hash().hex()[:16], blk.id().hex()[:16], blk.target.hex()[:8]))
                node = self.world.accept(op["label"], blk)
                try:
                    got = b.sk_utxo_plain(cs2, node.id)
                except KeyError:
                    got = None                                 # the state has no unspent set for the block it just took
                    self.stat("accepted_block_without_unspent_set")
                    if "C01" in self.focus or "C03" in self.focus:
                        self.fail("utxo_mismatch", "accepted-block-has-no-unspent-set", "after accepting %s the state cannot tell the unspent set at that block" % op["label"])
                if got is not None and got != node.utxo:
                    if "C01" in self.focus:
                        self.fail("utxo_mismatch", "utxo!=reference", "unspent set after %s differs from reference (%d vs %d entries)" % (op["label"], len(got), len(node.utxo)))
                if "C02" in self.focus and got is not None and blk.prev in cs2.unspent_transaction_outs_by_hash:
                    s_new, s_par = self.sums(cs2, node.id), self.sums(cs2, blk.prev)
                    if s_new > s_par + R.subsidy(blk.height) or s_new != sum(v for v, _ in node.utxo.values()):
                        self.fail("inflation", "supply-grew-more-than-subsidy",
                                  "sum(unspent after %s)=%d > sum(parent)=%d + subsidy %d" % (op["label"], s_new, s_par, R.subsidy(blk.height)))
                    if s_new > R.cumulative_subsidy(blk.height) or s_new > R.MAX_SASHIMI:
                        self.fail("inflation", "supply-exceeds-schedule", "sum(unspent)=%d exceeds cumulative subsidy" % s_new)
                self.before[op["label"]] = self.cs          # the (immutable) state the block was added to
                self.cs = cs2
                if tag:
                    self.stat("ineffective_mutation")
            else:
                self.stat("rejected")
                if not verdict:
                    if tag:
                        self.stat("stricter_than_reference")
                    elif self.stats.get("restarts") and self._rebuilt_state_incomplete(blk):
                        # after a restart the code works on a state it rebuilt itself; when that state lacks blocks, a refusal
                        # says something about the restart (judged by C08 and by the oracles that follow), not about this block
                        self.stat("honest_rejected_after_restart")
                    else:
                        self.harness.append("honest candidate %s rejected: %r" % (op["label"], err))
                        self.stat("honest_rejected")
                        if "C05" in self.focus and not op.get("probe"):
                            self.probe_other_interval_starts(op, blk, now)
                else:
                    self.stat("clause:" + verdict[0])
            # non-trivial rule
            if "C01" in self.focus and len(blk.txs) > 1 and (has_forks or self.stats.get("spends", 0) > 0):
                self.nontrivial = True
            if len(blk.txs) > 1 and cs2 is not None:
                self.stat("spends")
            if "C02" in self.focus and (tag or (len(blk.txs) > 1 and sum(v for v, _ in blk.txs[0].outs) != R.subsidy(blk.height))):
                self.nontrivial = True
            if "C05" in self.focus and (tag or blk.height % self.case["cfg"][0] == 0):
                self.nontrivial = True
                if blk.height % self.case["cfg"][0] == 0:
                    self.stat("retarget_boundary_candidates")
        self.stat("forks_at_end", len(self.world.uni.tips()) - 1)
        self.stat("histories_with_fork", 1 if len(self.world.uni.tips()) > 1 else 0)
        return self.fails


def replay(case, focus):
    r = Run(case, focus)
    return r.execute()


def shrink_case(case, focus, sig, budget_s):
    def still(ops):
        try:
            c = dict(case, ops=ops)
            return any(f["sig"] == sig for f in Run(c, focus).execute())
        except Exception:
            return False
    ops = shrink_list(case["ops"], still, budget_s)
    return dict(case, ops=ops)


def drive(res, seed_, n_hist, tier, focus, cats, pid, n_blocks=(6, 14), p_mut=0.4, p_deep=0.0, deep_halving=False, deep_vlq_edge=0.0, p_relay=0.12, **opts):
    """Hypothesis is the generator engine; failures are collected (bucketed by signature) and shrunk afterwards."""
    found = {}

    @hypothesis.seed(seed_)
    @settings(max_examples=n_hist, deadline=None, database=None, derandomize=False,
              suppress_health_check=list(hypothesis.HealthCheck), phases=[hypothesis.Phase.generate])
    @given(st.randoms(use_true_random=True), st.sampled_from(CFGS[:3] + CFGS[:3] + CFGS[3:]), st.integers(*n_blocks))
    def prop(rnd, cfg, nb):
        if p_deep and rnd.random() < p_deep:
            dd = gen_deep(rnd, halving=deep_halving, vlq_edge=rnd.random() < deep_vlq_edge)
            if deep_vlq_edge and (dd["H"] < 64 + 60 or 8192 <= dd["H"] < 16384 or (1 << 20) <= dd["H"] < (1 << 21)):
                dd["vlq_edge"] = True
                dd["special"] = {str((dd["H"] // R.REAL_PERIOD) * R.REAL_PERIOD - (R.REAL_PERIOD if (dd["H"] // R.REAL_PERIOD) else 0)): dd["tip_ts"] - R.REAL_TIMESPAN}
            case = gen_case(rnd, CFGS[3], min(nb, 8), p_mut, cats, deep=dd, **dict({"p_twin": 0.12}, **opts))
            res.count("deep_histories")
        else:
            case = gen_case(rnd, cfg, nb, p_mut, cats, **dict({"p_twin": 0.12, "p_restart": 0.04}, **opts))
            if rnd.random() < p_relay:
                # the same history, but every candidate is DELIVERED to a simulated node by a peer (relay path); in half of
                # these the node has an unanswered block request outstanding with that peer
                case["relay"] = {"open_request": rnd.random() < 0.5}
                case.pop("horizon", None)
                res.count("relayed_histories")
        run = Run(case, focus)
        try:
            fails = run.execute()
        except env.HarnessError:
            raise
        except Exception as e:
            fails = [{"kind": "harness_exception", "sig": "exc:" + exc_sig(e), "msg": repr(e)}]
            res.error("executor raised %r on case %s" % (e, env.digest(case)))
        res.evaluations += run.stats.get("candidates", 0)
        for k, v in run.stats.items():
            res.count(k, v)
        res.count("histories")
        if run.nontrivial:
            res.nontrivial(env.digest(case))
        if run.harness:
            res.count("honest_candidates_refused", len(run.harness))
            res.extra.setdefault("honest_candidates_refused_examples", [])
            if len(res.extra["honest_candidates_refused_examples"]) < 3:
                res.extra["honest_candidates_refused_examples"].append(run.harness[0])
            if run.degenerate() and len(res.errors) < 3:
                res.error(run.harness[0] + " (case %s)" % env.digest(case))
        if res.counters["histories"] % 7 == 1:
            res.sample({"cfg": case["cfg"], "ops": case["ops"][:3], "n_ops": len(case["ops"])}, limit=2)
        for f in fails:
            if f["sig"] not in found:
                found[f["sig"]] = (f, case)
            res.count("fail:" + f["sig"])

    prop()
    for sig, (f, case) in found.items():
        small = shrink_case(case, focus, sig, 20 if tier == "quick" else 120)
        res.fail(f["kind"], sig, f["msg"], small)
    return res
