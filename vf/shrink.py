"""Delta debugging over op lists (used instead of Hypothesis' shrink phase where that would hit its 5-minute cap)."""
import time


def shrink_list(items, still_fails, budget_s=30.0):
    """greedy one-at-a-time removal, repeated to a fixpoint within the budget; `still_fails(list) -> bool`"""
    t0 = time.time()
    cur = list(items)
    changed = True
    while changed and time.time() - t0 < budget_s:
        changed = False
        i = len(cur) - 1
        while i >= 0 and time.time() - t0 < budget_s:
            cand = cur[:i] + cur[i + 1:]
            try:
                ok = still_fails(cand)
            except Exception:
                ok = False
            if ok:
                cur = cand
                changed = True
            i -= 1
    return cur
