"""Fork-and-kill crash injector for file saves (DESIGN.md 3.6).  In a forked child the module under test gets an `open`
that writes every chunk straight through an unbuffered descriptor and an `os` whose replace() is counted; the child
calls os._exit(77) at the k-th counted step.  The parent enumerates k = 0,1,2,... until the child completes (exit 0),
so EVERY chunk boundary / rename boundary of that save is visited.  Two file models are offered: unbuffered (every written
chunk reaches the file at once: all prefixes) and buffered (an 8 KiB userspace buffer that reaches the file only when
full, on flush and on close: what a real process loses when it dies).  os.fsync / fileno are passed through."""
import builtins
import os


class _Crash(BaseException):
    pass


class _File:
    def __init__(self, path, mode, ctl, fd=None):
        self.ctl = ctl
        if fd is not None:                                          # wraps a descriptor the code opened itself (os.open + os.fdopen)
            self.fd = fd
            return
        ctl.tick("open:" + path)                                   # crash before the file is even created/truncated
        self.fd = os.open(path, os.O_WRONLY | os.O_CREAT | os.O_TRUNC, 0o644)
        ctl.tick("opened:" + path)

    def write(self, s):
        data = s.encode() if isinstance(s, str) else s
        self.ctl.tick("write")                                      # crash before this chunk reaches the file
        os.write(self.fd, data)
        return len(s)

    def flush(self):
        pass

    def fileno(self):
        return self.fd

    def close(self):
        self.ctl.tick("close")
        os.close(self.fd)

    def __enter__(self):
        return self

    def __exit__(self, *a):
        self.close()
        return False


class _BufferedFile(_File):
    """the realistic variant: a userspace buffer (8 KiB, like Python's buffered text files) that reaches the file only
    when it fills up, on flush() and on close() -- a crash loses whatever is still buffered"""
    BUFSIZE = 8192

    def __init__(self, path, mode, ctl, fd=None):
        super().__init__(path, mode, ctl, fd)
        self.buf = b""

    def write(self, s):
        data = s.encode() if isinstance(s, str) else s
        self.buf += data
        if len(self.buf) > self.BUFSIZE:
            self._drain("write")
        return len(s)

    def _drain(self, what):
        if self.buf:
            self.ctl.tick(what)                                     # crash before the buffered bytes reach the file
            os.write(self.fd, self.buf)
            self.buf = b""

    def flush(self):
        self._drain("flush")

    def close(self):
        self._drain("close-flush")
        self.ctl.tick("close")
        os.close(self.fd)


class _Os:
    def __init__(self, ctl, cls=None):
        self._ctl = ctl
        self._cls = cls or _File

    def open(self, path, flags, mode=0o777, **kw):
        # the code opens the file itself: its OWN flags decide whether an existing file is truncated
        self._ctl.tick("os.open:" + str(path))
        fd = os.open(path, flags, mode, **kw)
        self._ctl.tick("os.opened:" + str(path))
        return fd

    def fdopen(self, fd, mode="r", *a, **kw):
        if "w" in mode or "a" in mode or "+" in mode:
            return self._cls(None, mode, self._ctl, fd=fd)
        return os.fdopen(fd, mode, *a, **kw)

    def write(self, fd, data):
        self._ctl.tick("os.write")
        return os.write(fd, data)

    def replace(self, a, b):
        self._ctl.tick("before_replace")
        os.replace(a, b)
        self._ctl.tick("after_replace")

    def __getattr__(self, n):
        return getattr(os, n)


class _Ctl:
    def __init__(self, k):
        self.k = k
        self.n = 0

    def tick(self, what):
        if self.n == self.k:
            os._exit(77)
        self.n += 1


def crash_points(module, action, inspect, max_points=2000, buffered=False):
    """module: the module whose `open`/`os` are replaced in the child; action(): performs the save (in the child);
    inspect(k) -> called in the parent after the child died at step k.  Returns the number of crash points visited."""
    k = 0
    while k < max_points:
        pid = os.fork()
        if pid == 0:
            try:
                ctl = _Ctl(k)
                real_open = builtins.open
                cls = _BufferedFile if buffered else _File
                module.open = lambda p, m="r", *a, **kw: cls(p, m, ctl) if ("w" in m or "a" in m) else real_open(p, m, *a, **kw)
                module.os = _Os(ctl, cls)
                action()
                os._exit(0)
            except BaseException:
                os._exit(78)
        _, status = os.waitpid(pid, 0)
        code = os.WEXITSTATUS(status) if os.WIFEXITED(status) else -1
        if code == 0:
            return k
        if code != 77:
            raise RuntimeError("crash-injection child exited %r at step %d" % (code, k))
        inspect(k)
        k += 1
    raise RuntimeError("more than %d crash points" % max_points)
