"""python -m vf.worker <ID> <tier> <seed> <shard-json> <outfile>   -- one shard in a fresh interpreter."""
import importlib
import json
import sys
import time
import traceback


def main():
    pid, tier, seed, shard_json, out = sys.argv[1:6]
    from vf import env
    from vf.result import Result, jdump
    t0 = time.time()
    res = Result()
    Result.primary = None
    try:
        env.enter_workdir()
        mod = importlib.import_module("vf.props." + pid.lower())
        shard = json.loads(shard_json)
        if shard.get("kind") == "__regress__":
            for path in shard["files"]:
                with open(path) as f:
                    rec = json.load(f)
                res.evaluations += 1
                res.count("regress_replayed")
                for fl in mod.replay(rec["case"]):
                    fl.setdefault("case", rec["case"])
                    res.fail(fl["kind"], fl["sig"], "regress %s: %s" % (path, fl["msg"]), fl["case"])
        else:
            r = mod.run(shard, tier, int(seed))
            if r is not None:
                res = r
    except env.HarnessError as e:
        res = Result.primary or res                     # keep what the shard had found so far
        res.error("HarnessError: %s" % e)
    except BaseException:
        res = Result.primary or res
        res.error("worker crashed:\n" + traceback.format_exc())
    d = res.to_json()
    d["wall_s"] = time.time() - t0
    jdump(d, out)


if __name__ == "__main__":
    main()
