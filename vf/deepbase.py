"""Fabricated deep chain states (DESIGN.md 3.4): a CoinState / reference ledger whose single tip has height H and whose
by-height index maps 0..H to filler blocks, so the REAL retarget period (10,080) and the REAL checkpoint horizon are
exercised without 170k real blocks.  Not reachable by a real history (fillers are not linked): harmless for the header
rules, which read only the index, the parent and the interval-start timestamp."""
import hashlib

from vf import refmodel as R

N_FILL = 16


class DeepChain:
    """tuple-like: chain[h] -> block id at height h; chain + (id,) -> extended chain; len()"""

    def __init__(self, base_len, base_at, extra=()):
        self.base_len, self.base_at, self.extra = base_len, base_at, tuple(extra)

    def __getitem__(self, h):
        if h < 0:
            h += len(self)
        if h < self.base_len:
            return self.base_at(h)
        return self.extra[h - self.base_len]

    def __add__(self, other):
        return DeepChain(self.base_len, self.base_at, self.extra + tuple(other))

    def __len__(self):
        return self.base_len + len(self.extra)


class DeepIndex:
    """mapping-like stand-in for the per-tip by-height index of the code under test (supports [], in, set, get, items)"""

    def __init__(self, base_len, base_at, extra=None):
        self.base_len, self.base_at, self.extra = base_len, base_at, dict(extra or {})

    def __getitem__(self, h):
        if h in self.extra:
            return self.extra[h]
        if 0 <= h < self.base_len:
            return self.base_at(h)
        raise KeyError(h)

    def __contains__(self, h):
        return h in self.extra or 0 <= h < self.base_len

    def get(self, h, d=None):
        return self[h] if h in self else d

    def set(self, h, v):
        e = dict(self.extra)
        e[h] = v
        return DeepIndex(self.base_len, self.base_at, e)

    def __len__(self):
        return self.base_len + len([k for k in self.extra if k >= self.base_len])

    def items(self):
        return self.extra.items()

    def keys(self):
        return self.extra.keys()

    def values(self):
        return self.extra.values()


def filler(k, height, ts, target):
    """a distinct, well-formed plain block (reward transaction only)"""
    tag = hashlib.sha256(b"filler%d" % k).digest()
    cb = R.RTx([(R.NULL32, 0, ("cb", height & 0xFFFFFFFF, b"filler%d" % k))], [(1_000_000_000, tag + tag)])
    b = R.RBlock(height, tag, R.merkle_root([cb.id()]), ts, target, k, (tag, tag, tag), [cb])
    return b


def make(H, tip_ts, target, special_ts, cfg):
    """-> (RefLedger-like universe rooted at the fabricated tip, tip RBlock, sk CoinState)
    special_ts: {height: timestamp} for heights whose timestamp matters (retarget interval starts)"""
    from vf import build
    import immutables
    from skepticoin.coinstate import CoinState

    fills = [filler(k, k, tip_ts - 10_000_000 + k, target) for k in range(N_FILL)]
    spec = {h: filler(1000 + i, h, ts, target) for i, (h, ts) in enumerate(sorted(special_ts.items()))}
    tip = filler(999, H, tip_ts, target)

    def plain_at(h):
        if h == H:
            return tip
        return spec.get(h) or fills[h % N_FILL]

    led = R.RefLedger(build.GENESIS, cfg)
    led.nodes = {}
    led.order = []
    for b in fills + list(spec.values()):
        n = R.RNode(b, None, {}, (), -1)
        led.nodes[n.id] = n
    chain = DeepChain(H + 1, lambda h: plain_at(h).id())
    tipnode = R.RNode(tip, None, {}, chain, 0)
    led.nodes[tipnode.id] = tipnode
    led.order.append(tipnode.id)
    led.genesis = tipnode

    sk = {id(b): build.to_sk_block(b) for b in fills + list(spec.values()) + [tip]}
    sk_tip = sk[id(tip)]
    index = DeepIndex(H + 1, lambda h: sk[id(plain_at(h))])
    by_hash = {sk_tip.hash(): sk_tip}
    cs = CoinState(
        block_by_hash=immutables.Map(by_hash),
        unspent_transaction_outs_by_hash=immutables.Map({sk_tip.hash(): immutables.Map()}),
        block_by_height_by_hash=immutables.Map({sk_tip.hash(): index}),
        heads=immutables.Map({sk_tip.hash(): sk_tip}),
        current_chain_hash=sk_tip.hash(),
    )
    return led, tip, cs
