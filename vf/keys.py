"""Fixed deterministic key pairs (secret exponents 1..N) and deterministic (RFC 6979) signing.
Depends only on the third-party `ecdsa` package, not on the code under test."""
import hashlib

import ecdsa

N_KEYS = 8


class Key:
    def __init__(self, i):
        self.i = i
        self.sk = ecdsa.SigningKey.from_secret_exponent(i + 1, curve=ecdsa.SECP256k1)
        self.pub = self.sk.verifying_key.to_string()      # 64 bytes
        self.priv = self.sk.to_string()

    def sign(self, msg):
        return self.sk.sign_deterministic(msg, hashfunc=hashlib.sha1)


KEYS = [Key(i) for i in range(N_KEYS)]
BY_PUB = {k.pub: k for k in KEYS}


def verify(pub, sig, msg):
    """The arbiter of a signature for the reference validator: ecdsa's verifier, SHA-1 digest (the network's rule)."""
    try:
        vk = ecdsa.VerifyingKey.from_string(pub, curve=ecdsa.SECP256k1)
        return bool(vk.verify(sig, msg, hashfunc=hashlib.sha1))
    except Exception:
        return False
