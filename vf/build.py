"""Concrete builder: turns label-level block ops (vf.histgen) into plain reference blocks (vf.refmodel), mines them
(nonce search with the reference evidence), converts plain <-> skepticoin objects.  Mutations are data inside the op."""
import hashlib
import struct

from vf import env, refmodel as R
from vf.keys import KEYS

env.import_repo()
from skepticoin import datatypes as D          # noqa: E402
from skepticoin import signing as S            # noqa: E402
from skepticoin.genesis import genesis_block_data   # noqa: E402

GENESIS = bytes(genesis_block_data)


# ------------------------------------------------------------------ conversions

def to_sk_sig(sig):
    if sig[0] == "sig":
        return S.SECP256k1Signature(sig[1])
    if sig[0] == "cb":
        return S.CoinbaseData(sig[1], sig[2])
    return S.SignableEquivalent()


def to_sk_tx(tx):
    return D.Transaction(
        [D.Input(D.OutputReference(h, i), to_sk_sig(s)) for (h, i, s) in tx.ins],
        [D.Output(v, S.SECP256k1PublicKey(pk)) for (v, pk) in tx.outs])


def to_sk_block(b):
    return D.Block(D.BlockHeader(D.BlockSummary(b.height, b.prev, b.merkle, b.ts, b.target, b.nonce),
                                 D.PowEvidence(*b.ev)), [to_sk_tx(t) for t in b.txs])


def from_sk_sig(s):
    if isinstance(s, S.SECP256k1Signature):
        return ("sig", s.signature)
    if isinstance(s, S.CoinbaseData):
        return ("cb", s.height, s.signature)
    if isinstance(s, S.SignableEquivalent):
        return ("se",)
    raise TypeError(repr(s))


def from_sk_tx(t):
    return R.RTx([(i.output_reference.hash, i.output_reference.index, from_sk_sig(i.signature)) for i in t.inputs],
                 [(o.value, o.public_key.public_key) for o in t.outputs])


def from_sk_block(b):
    s, e = b.header.summary, b.header.pow_evidence
    return R.RBlock(s.height, s.previous_block_hash, s.merkle_root_hash, s.timestamp, s.target, s.nonce,
                    (e.summary_hash, e.chain_sample, e.block_hash), [from_sk_tx(t) for t in b.transactions])


def sk_utxo_plain(coinstate, block_hash):
    return {(r.hash, r.index): (o.value, o.public_key.public_key)
            for r, o in coinstate.unspent_transaction_outs_by_hash[block_hash].items()}


def coinstate_digest(cs):
    """digest of everything observable in a CoinState: ids, per-block unspent maps, indexes, tips, head"""
    h = hashlib.sha256()
    for bid in sorted(cs.block_by_hash.keys()):
        h.update(b"B" + bid)
        h.update(cs.block_by_hash[bid].serialize())
        # (a tree is free to keep these per-block maps for fewer blocks than it knows: the digest says "none kept" then)
        umap, hmap = cs.unspent_transaction_outs_by_hash.get(bid), cs.block_by_height_by_hash.get(bid)
        if umap is None:
            h.update(b"no-unspent-map")
        else:
            for ref, o in sorted(((r.hash, r.index), (o.value, o.public_key.public_key)) for r, o in umap.items()):
                h.update(ref[0] + struct.pack(">IQ", ref[1], o[0]) + o[1])
        if hmap is None:
            h.update(b"no-height-map")
        else:
            for ht, b in sorted((k, v.hash()) for k, v in hmap.items()):
                h.update(struct.pack(">Q", ht) + b)
    for t in sorted(cs.heads.keys()):
        h.update(b"T" + t)
    h.update(b"H" + (cs.current_chain_hash or b""))
    h.update(struct.pack(">III", len(cs.block_by_hash), len(cs.unspent_transaction_outs_by_hash), len(cs.block_by_height_by_hash)))
    return h.hexdigest()


# ------------------------------------------------------------------ world: universe of built blocks

class World:
    """Holds every block built so far (the *universe* reference ledger), named transactions and labelled blocks."""

    def __init__(self, cfg=None, uni=None):
        self.cfg = cfg or R.Config()
        self.uni = uni or R.RefLedger(GENESIS, self.cfg)
        self.blocks = {"g": self.uni.genesis.blk}
        self.txs = {"g.0": self.uni.genesis.blk.txs[0]}
        self.tries = 0

    # ---- transactions
    def resolve(self, ref):
        name, oi = ref
        if name == "@null":
            return (R.NULL32, 0)
        if name.startswith("@x"):                      # a reference to a transaction that exists nowhere
            return (hashlib.sha256(name.encode()).digest(), oi)
        return (self.txs[name].id(), oi)

    def build_tx(self, op, parent_utxo):
        if "copy" in op:
            return self.txs[op["copy"]]
        refs = [self.resolve(r) for r in op["ins"]]
        outs = [(v, KEYS[k].pub) for (v, k) in op["outs"]]
        tx = R.RTx([(h, i, ("se",)) for (h, i) in refs], outs)
        for e in op.get("pre", []):                     # edits before signing (are covered by the signatures)
            self._edit(tx, e)
        msg = R.signing_message(tx)
        if op.get("sign_with") == "code":               # the message as the code under test itself derives it
            msg = to_sk_tx(tx).signable_equivalent().serialize()
        signers = op.get("signers", "owners")
        ins = []
        for n, (h, i, _s) in enumerate(tx.ins):
            if signers == "owners":
                o = parent_utxo.get((h, i))
                k = KEYS[0] if o is None else next((k for k in KEYS if k.pub == o[1]), KEYS[0])
            else:
                k = KEYS[signers[n % len(signers)]]
            ins.append((h, i, ("sig", k.sign(msg))))
        tx.ins = ins
        for e in op.get("post", []):                    # edits after signing (NOT covered by the signatures)
            self._edit(tx, e)
        tx.touch()
        if "name" in op:
            self.txs[op["name"]] = tx                   # latest build wins (the honest variant follows a mutated one)
        return tx

    def _edit(self, tx, e):
        k = e[0]
        if k == "set_out":                              # ["set_out", i, value, key]
            _, i, v, key = e
            i %= len(tx.outs)
            tx.outs[i] = (v if v is not None else tx.outs[i][0], KEYS[key].pub if key is not None else tx.outs[i][1])
        elif k == "add_out":
            tx.outs.append((e[1], KEYS[e[2]].pub))
        elif k == "drop_out":
            if len(tx.outs) > 0:
                del tx.outs[e[1] % len(tx.outs)]
        elif k == "add_in":                             # ["add_in", ref, sigspec]
            h, i = self.resolve(e[1])
            tx.ins.append((h, i, ("sig", KEYS[e[2]].sign(R.signing_message(tx))) if len(e) > 2 and e[2] is not None else ("se",)))
        elif k == "drop_in":
            if len(tx.ins) > 0:
                del tx.ins[e[1] % len(tx.ins)]
        elif k == "swap_ins":
            a, b = e[1] % len(tx.ins), e[2] % len(tx.ins)
            tx.ins[a], tx.ins[b] = tx.ins[b], tx.ins[a]
        elif k == "set_ref":                            # ["set_ref", i, ref]  reference changed, signature kept
            i = e[1] % len(tx.ins)
            h, j = self.resolve(e[2])
            tx.ins[i] = (h, j, tx.ins[i][2])
        elif k == "sig_from":                           # signature copied from another input of this transaction
            a, b = e[1] % len(tx.ins), e[2] % len(tx.ins)
            tx.ins[a] = (tx.ins[a][0], tx.ins[a][1], tx.ins[b][2])
        elif k == "sig_from_tx":                        # signature copied from another (named) transaction
            i = e[1] % len(tx.ins)
            other = self.txs[e[2]]
            tx.ins[i] = (tx.ins[i][0], tx.ins[i][1], other.ins[e[3] % len(other.ins)][2])
        elif k == "sig_placeholder":                    # ["sig_placeholder", i, "se"|"cb"]
            i = e[1] % len(tx.ins)
            ph = ("se",) if e[2] == "se" else ("cb", 0, b"x")
            tx.ins[i] = (tx.ins[i][0], tx.ins[i][1], ph)
        elif k == "sig_flip":                           # one bit of the signature
            i = e[1] % len(tx.ins)
            s = bytearray(tx.ins[i][2][1])
            s[(e[2] // 8) % 64] ^= 1 << (e[2] % 8)
            tx.ins[i] = (tx.ins[i][0], tx.ins[i][1], ("sig", bytes(s)))
        else:
            raise ValueError(e)

    # ---- blocks
    def build_block(self, op, max_tries=400_000):
        """-> RBlock (mined so that the only defects are the ones the op asks for), or None if unminable"""
        parent = self.blocks[op["parent"]]
        pnode = self.uni.nodes[parent.id()]
        putxo = pnode.utxo
        txs = [self.build_tx(t, putxo) for t in op.get("txs", [])]
        height = pnode.height + 1
        fees = 0
        for tx in txs:
            tin = sum(putxo[(h, i)][0] for (h, i, _s) in tx.ins if (h, i) in putxo)
            fees += tin - sum(v for v, _ in tx.outs)
        hdr = op.get("hdr", {})
        rw = op.get("reward", {})
        allowed = R.subsidy(height) + max(fees, 0) if rw.get("fees", "parent") == "parent" else R.subsidy(height) + rw["fees_value"]
        value = max(0, allowed + rw.get("delta", 0))
        miner = KEYS[op.get("miner", 0)].pub
        shape = rw.get("shape", "one")
        if shape == "one":
            cb_outs = [(value, miner)]
        elif shape == "split":                          # several outputs summing to the bound
            a = value // 3
            cb_outs = [(a, miner), (value - a, KEYS[(op.get("miner", 0) + 1) % len(KEYS)].pub)]
        elif shape == "times3":                         # three outputs EACH of the full amount
            cb_outs = [(value, KEYS[(op.get("miner", 0) + j) % len(KEYS)].pub) for j in range(3)]
        elif shape == "zero_extra":                     # a second output worth nothing (legal for a reward: only the sum is bounded)
            cb_outs = [(value, miner), (0, KEYS[(op.get("miner", 0) + 1) % len(KEYS)].pub)]
        elif shape == "zero_only":
            cb_outs = [(0, miner)]
        elif shape == "many":                           # five outputs summing to the bound
            q = value // 5
            cb_outs = [(q, KEYS[(op.get("miner", 0) + j) % len(KEYS)].pub) for j in range(4)] + [(value - 4 * q, miner)]
        elif shape == "wrap":
            # two outputs whose values add up to the allowed amount only modulo 2^64 (one of them has the top bit set)
            x = rw.get("x", 1)
            cb_outs = [((1 << 64) - x, miner), (value + x, KEYS[(op.get("miner", 0) + 1) % len(KEYS)].pub)]
        elif shape == "none":
            cb_outs = []
        elif shape == "less":
            cb_outs = [(value // 2, miner)]
        else:
            raise ValueError(shape)
        cbdata = op.get("cbdata", op["label"]).encode() if isinstance(op.get("cbdata", op["label"]), str) else bytes(op["cbdata"])
        cb_in_sig = ("cb", max(0, height + hdr.get("cb_height", 0)), cbdata)
        cb = R.RTx([(R.NULL32, 0, cb_in_sig)], cb_outs)
        self.txs[op["label"] + ".0"] = cb
        struct_ = op.get("struct")
        all_txs = [cb] + txs
        if struct_ == "no_transactions":
            all_txs = []
        elif struct_ == "first_not_reward":
            all_txs = txs + [cb] if txs else [R.RTx([(hashlib.sha256(b"q").digest(), 0, ("sig", KEYS[0].sign(b"q")))], [(1, miner)])]
        elif struct_ == "second_reward":
            all_txs = [cb, R.RTx([(R.NULL32, 0, ("cb", height, b"second"))], [(1, miner)])] + txs
        elif struct_ == "duplicate_transaction" and txs:
            all_txs = [cb] + txs + [txs[0]]
        elif struct_ == "cb_two_inputs":
            all_txs = [R.RTx([(R.NULL32, 0, cb_in_sig), (R.NULL32, 0, cb_in_sig)], cb_outs)] + txs
        elif struct_ == "cb_sig_type":
            all_txs = [R.RTx([(R.NULL32, 0, ("sig", KEYS[0].sign(b"cb")))], cb_outs)] + txs
        elif struct_ == "cb_data_201":
            all_txs = [R.RTx([(R.NULL32, 0, ("cb", height, b"d" * 201))], cb_outs)] + txs
        elif struct_ == "oversize":
            big = [(1, KEYS[j % len(KEYS)].pub) for j in range(2750)]          # ~ 200 KB of outputs
            all_txs = [R.RTx([(R.NULL32, 0, cb_in_sig)], cb_outs + big)] + txs
        elif struct_ == "maxsize":
            # a VALID block whose serialization is exactly MAX_BLOCK_SIZE bytes: the reward is spread over ~2,700 outputs and
            # the free-form reward data pads the rest
            def size_with(k, data):
                outs = [(value - k, miner)] + [(1, KEYS[j % len(KEYS)].pub) for j in range(k)]
                c = R.RTx([(R.NULL32, 0, ("cb", height, data))], outs)
                return c, len(R.RBlock(height, R.NULL32, R.NULL32, 0, R.NULL32, 0, (R.NULL32,) * 3, [c] + txs).raw())
            k0 = (R.MAX_BLOCK_SIZE - size_with(0, b"")[1]) // 73
            done = False
            for k in range(k0, k0 - 4, -1):
                need = R.MAX_BLOCK_SIZE - size_with(k, b"")[1]
                if 0 <= need <= R.MAX_CB_DATA and k < value:
                    cb, sz = size_with(k, (cbdata + b"." * need)[:need])
                    if sz == R.MAX_BLOCK_SIZE:
                        done = True
                        break
            if not done:
                raise ValueError("cannot pad to the maximum size")
            self.txs[op["label"] + ".0"] = cb
            all_txs = [cb] + txs
        self.blocks_last_txs = all_txs
        ts = parent.ts + op.get("dt", 120)
        tsm = hdr.get("ts")
        if tsm == "parent":
            ts = parent.ts
        elif tsm == "parent-1":
            ts = parent.ts - 1
        target = self.uni.prescribed_target(pnode, ts)
        tm = hdr.get("target")
        if tm is not None:
            if tm[0] == "delta":
                target = ((int.from_bytes(target, "big") + tm[1]) % R.TWO256).to_bytes(32, "big")
            elif tm[0] == "unretargeted":
                target = parent.target
            elif tm[0] == "retargeted_anyway":
                start = self.uni.nodes[pnode.chain[max(0, height - self.cfg.period)]]
                target = R.retarget(parent.target, max(1, ts - start.blk.ts), self.cfg.timespan)
            elif tm[0] == "hex":
                target = bytes.fromhex(tm[1])
        ids = [t.id() for t in all_txs]
        merkle = R.merkle_root(ids) if ids else R.NULL32
        if hdr.get("merkle") == "other":
            merkle = R.merkle_root(list(reversed(ids)) + [R.sha256d(b"other")])
        prev = parent.id()
        if hdr.get("prev") == "unknown":
            prev = hashlib.sha256(b"unknown-parent" + op["label"].encode()).digest()
        blk = R.RBlock(max(0, height + hdr.get("height", 0)), prev, merkle, ts, target, 0, (R.NULL32,) * 3, all_txs)
        evm = hdr.get("evidence")                      # [field 0..2, bit] or ["sibling", label]
        want_bad_pow = hdr.get("pow") == "bad"
        tgt_int = int.from_bytes(target, "big")
        raw_at = (lambda h: self.uni.nodes[pnode.chain[h]].blk.raw())
        start_nonce = int.from_bytes(hashlib.sha256(op["label"].encode()).digest()[:4], "big")   # full u32 range, as real miners use
        for n in range(max_tries):
            blk.nonce = (start_nonce + n) & 0xFFFFFFFF
            if blk.height >= 1 and blk.height - 1 < len(pnode.chain):
                ev = R.pow_evidence(blk, raw_at, self.cfg.scrypt)
            else:
                ev = (self.cfg.scrypt(blk.summary_raw(), blk.height.to_bytes(8, "big")), b"\x00" * 32, R.NULL32)
                ev = (ev[0], ev[1], R.blake2(ev[0] + ev[1] + R.enc_txlist(blk.txs)))
            if evm is not None:
                if evm[0] == "forged_summary":
                    # the summary hash is made up (no scrypt round spent); chain sample and block hash then follow from it the
                    # regular way, so everything that can be checked WITHOUT the scrypt round agrees
                    forged = hashlib.sha256(b"forged" + blk.summary_raw()).digest()
                    if blk.height >= 1 and blk.height - 1 < len(pnode.chain):
                        ev = R.pow_evidence(blk, raw_at, lambda *_a: forged)
                    else:
                        ev = (forged, b"\x00" * 32, R.blake2(forged + b"\x00" * 32 + R.enc_txlist(blk.txs)))
                elif evm[0] == "sibling":
                    ev = self.blocks[evm[1]].ev
                else:
                    f = bytearray(ev[evm[0]])
                    f[(evm[1] // 8) % 32] ^= 1 << (evm[1] % 8)
                    ev = tuple(bytes(f) if j == evm[0] else ev[j] for j in range(3))
            blk.ev = ev
            blk.touch()
            ok = int.from_bytes(blk.id(), "big") < tgt_int
            self.tries += 1
            if ok != want_bad_pow:
                return blk
        return None

    def safe_dt(self, pnode, dt, floor=1 << 245):
        """smallest dt' >= dt for which the prescribed target of a child of pnode stays minable (>= floor)"""
        h = pnode.height + 1
        if h % self.cfg.period:
            return dt
        start = self.uni.nodes[pnode.chain[h - self.cfg.period]]
        need = -(-floor * self.cfg.timespan // max(1, int.from_bytes(pnode.blk.target, "big")))
        el = pnode.blk.ts + dt - start.blk.ts
        return dt if el >= need else dt + (need - el)

    def accept(self, label, blk):
        """register a block the universe considers stored (parent must be in the universe)"""
        self.blocks[label] = blk
        if blk.id() not in self.uni.nodes:
            self.uni.add(blk)
        return self.uni.nodes[blk.id()]
