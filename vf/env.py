"""Locate the code under test, isolate the process in a private working directory and apply the
*test configuration* (DESIGN.md section 2).  Nothing here touches validators, CoinState, stores,
handlers -- only the proof-of-work stand-in, the checkpoint horizon, clocks and RNGs."""
import atexit
import contextlib
import hashlib
import io
import os
import shutil
import sys
import tempfile

sys.dont_write_bytecode = True

VERIF_HOME = os.environ.get("VERIF_HOME") or os.path.dirname(os.path.dirname(os.path.abspath(__file__)))
REPO = os.environ.get("VERIF_REPO", "/repo")


class HarnessError(Exception):
    """Something is wrong with the harness or its assumptions about the tree -> exit 2, never a violation."""


_workdir = None


def enter_workdir():
    """chdir into a private temp dir (importing skepticoin.blockstore creates ./chain.db; wallet/peers files
    are written to the cwd).  Removed at exit."""
    global _workdir
    if _workdir is None:
        base = os.environ.get("VERIF_WORK_BASE") or tempfile.gettempdir()
        _workdir = tempfile.mkdtemp(prefix="vf_", dir=base)
        os.chdir(_workdir)
        atexit.register(lambda: shutil.rmtree(_workdir, ignore_errors=True))
    return _workdir


def fresh_subdir(name="case"):
    d = tempfile.mkdtemp(prefix=name + "_", dir=enter_workdir())
    return d


@contextlib.contextmanager
def quiet():
    old = sys.stdout
    sys.stdout = io.StringIO()
    try:
        yield
    finally:
        sys.stdout = old


def import_repo():
    """Put the tree under test first on sys.path and import the package (silently)."""
    enter_workdir()
    if sys.path[0] != REPO:
        sys.path.insert(0, REPO)
    with quiet():
        import skepticoin  # noqa
        import skepticoin.consensus  # noqa
        import skepticoin.coinstate  # noqa
    p = os.path.realpath(os.path.dirname(sys.modules["skepticoin"].__file__))
    if not p.startswith(os.path.realpath(REPO)):
        raise HarnessError("skepticoin imported from %s, expected under %s" % (p, REPO))


def import_networking():
    import_repo()
    import logging
    logging.disable(logging.CRITICAL)
    with quiet():
        import skepticoin.blockstore  # noqa  (creates ./chain.db in the private workdir)
        import skepticoin.networking.local_peer  # noqa
        import skepticoin.networking.manager  # noqa
        import skepticoin.networking.remote_peer  # noqa
        import skepticoin.networking.disk_interface  # noqa
    _sync_checkpoint_table()


def _sync_checkpoint_table():
    """modules that bind the checkpoint table by name at import (the relay / bulk-download handler) see the same table as
    consensus does under the current test configuration"""
    import sys
    C = sys.modules.get("skepticoin.consensus")
    rp = sys.modules.get("skepticoin.networking.remote_peer")
    if C is not None and rp is not None and hasattr(rp, "KNOWN_HASHES") and hasattr(C, "KNOWN_HASHES"):
        rp.KNOWN_HASHES = C.KNOWN_HASHES


def _need(mod, name):
    if not hasattr(mod, name):
        raise HarnessError("patch target %s.%s missing" % (mod.__name__, name))


def fast_scrypt(password, salt):
    return hashlib.sha256(b"fast" + password + salt).digest()


_real = {}


def use_fast_pow(horizon=-1):
    """scrypt stand-in (same signature, 1us instead of 105ms) and every generated block above the checkpoint
    horizon, i.e. on the full-validation path."""
    import_repo()
    import skepticoin.consensus as C
    for n in ("scrypt", "MAX_KNOWN_HASH_HEIGHT", "KNOWN_HASHES"):
        _need(C, n)
        _real.setdefault(("C", n), getattr(C, n))
    C.scrypt = fast_scrypt
    C.MAX_KNOWN_HASH_HEIGHT = horizon
    C.KNOWN_HASHES = {} if horizon < 0 else _real[("C", "KNOWN_HASHES")]
    _sync_checkpoint_table()


def use_real_pow():
    import skepticoin.consensus as C
    for (m, n), v in list(_real.items()):
        if m == "C":
            setattr(C, n, v)
    _sync_checkpoint_table()


def set_retarget(period=None, timespan=None):
    """Patch the retarget period (consensus module globals).  None restores the real constants."""
    import skepticoin.consensus as C
    import skepticoin.params as P
    for n in ("BLOCKS_BETWEEN_TARGET_READJUSTMENT", "DESIRED_TARGET_READJUSTMENT_TIMESPAN"):
        _need(C, n)
    C.BLOCKS_BETWEEN_TARGET_READJUSTMENT = P.BLOCKS_BETWEEN_TARGET_READJUSTMENT if period is None else period
    C.DESIRED_TARGET_READJUSTMENT_TIMESPAN = P.DESIRED_TARGET_READJUSTMENT_TIMESPAN if timespan is None else timespan


def subseed(seed, *parts):
    h = hashlib.sha256(repr((int(seed),) + tuple(parts)).encode()).digest()
    return int.from_bytes(h[:8], "big")


def digest(obj):
    """64-bit digest of a JSON-able case (used to count distinct cases)."""
    import json
    return hashlib.sha256(json.dumps(obj, sort_keys=True, default=repr).encode()).hexdigest()[:16]
