"""Reference model -- written from the property statements and docs/params.md; imports nothing from the code
under test (hashlib, struct, ecdsa via vf.keys only).

Plain data:
  RTx(ins, outs)    ins  = [(ref_hash32, ref_index, sig)]   sig = ('sig', b64) | ('cb', height, data) | ('se',)
                    outs = [(value, pub64)]
  RBlock(height, prev, merkle, ts, target, nonce, ev, txs)   ev = (summary_hash32, chain_sample32, block_hash32)
"""
import hashlib
import struct

from vf import keys

MAX_SASHIMI = 2_099_999_986_350_000
MAX_BLOCK_SIZE = 200_000
MAX_CB_DATA = 200
MAX_FUTURE = 30
REAL_PERIOD = 10_080
REAL_TIMESPAN = 1_209_600
HALVING = 1_050_000
NULL32 = b"\x00" * 32
TWO256 = 1 << 256


def sha256d(b):
    return hashlib.sha256(hashlib.sha256(b).digest()).digest()


def blake2(b):
    return hashlib.blake2b(b, digest_size=32).digest()


def fast_scrypt(password, salt):          # must equal vf.env.fast_scrypt (the configured stand-in)
    return hashlib.sha256(b"fast" + password + salt).digest()


# ------------------------------------------------------------------ VLQ (the encoder's format)

def vlq(i):
    n = i.bit_length() // 7 + 1
    out = bytearray()
    for j in reversed(range(n)):
        out.append(((i >> (7 * j)) & 0x7F) | (0x80 if j else 0))
    return bytes(out)


class DecodeError(Exception):
    pass


class Reader:
    def __init__(self, b, pos=0):
        self.b = b
        self.pos = pos

    def read(self, n):
        if self.pos + n > len(self.b):
            raise DecodeError("truncated")
        r = self.b[self.pos:self.pos + n]
        self.pos += n
        return r

    def u8(self):
        return self.read(1)[0]

    def u16(self):
        return struct.unpack(">H", self.read(2))[0]

    def u32(self):
        return struct.unpack(">I", self.read(4))[0]

    def u64(self):
        return struct.unpack(">Q", self.read(8))[0]

    def vlq(self, strict=True):
        start = self.pos
        r = 0
        while True:
            b = self.u8()
            r = r * 128 + (b & 0x7F)
            if b < 128:
                break
        if strict and self.b[start:self.pos] != vlq(r):
            raise DecodeError("non-canonical vlq")
        return r


# ------------------------------------------------------------------ plain data + canonical encoders

class RTx:
    __slots__ = ("ins", "outs", "_raw", "_id")

    def __init__(self, ins, outs):
        self.ins = list(ins)
        self.outs = list(outs)
        self._raw = None
        self._id = None

    def raw(self):
        if self._raw is None:
            self._raw = enc_tx(self)
        return self._raw

    def id(self):
        if self._id is None:
            self._id = sha256d(self.raw())
        return self._id

    def touch(self):
        self._raw = self._id = None
        return self

    def copy(self):
        return RTx(list(self.ins), list(self.outs))

    def is_reward_style(self):
        return len(self.ins) == 1 and self.ins[0][0] == NULL32 and self.ins[0][1] == 0


def enc_sig(sig):
    if sig[0] == "sig":
        return b"\x02" + sig[1]
    if sig[0] == "cb":
        return b"\x01" + struct.pack(">I", sig[1]) + struct.pack("B", len(sig[2])) + sig[2]
    if sig[0] == "se":
        return b"\x00"
    raise ValueError(sig)


def enc_in(i):
    return i[0] + struct.pack(">I", i[1]) + enc_sig(i[2])


def enc_out(o):
    return struct.pack(">Q", o[0]) + b"\x02" + o[1]


def enc_tx(tx):
    return (b"\x00" + vlq(len(tx.ins)) + b"".join(enc_in(i) for i in tx.ins)
            + vlq(len(tx.outs)) + b"".join(enc_out(o) for o in tx.outs))


def signing_message(tx):
    """transaction with every signature blanked: all references + all outputs"""
    return (b"\x00" + vlq(len(tx.ins)) + b"".join(i[0] + struct.pack(">I", i[1]) + b"\x00" for i in tx.ins)
            + vlq(len(tx.outs)) + b"".join(enc_out(o) for o in tx.outs))


def enc_txlist(txs):
    return vlq(len(txs)) + b"".join(t.raw() for t in txs)


class RBlock:
    __slots__ = ("height", "prev", "merkle", "ts", "target", "nonce", "ev", "txs", "_raw", "_id")

    def __init__(self, height, prev, merkle, ts, target, nonce, ev, txs):
        self.height, self.prev, self.merkle, self.ts, self.target, self.nonce = height, prev, merkle, ts, target, nonce
        self.ev = ev
        self.txs = list(txs)
        self._raw = self._id = None

    def summary_raw(self):
        return (vlq(self.height) + self.prev + self.merkle + struct.pack(">I", self.ts) + self.target
                + struct.pack(">I", self.nonce))

    def header_raw(self):
        return b"\x00" + self.summary_raw() + self.ev[0] + self.ev[1] + self.ev[2]

    def raw(self):
        if self._raw is None:
            self._raw = self.header_raw() + enc_txlist(self.txs)
        return self._raw

    def id(self):
        if self._id is None:
            self._id = sha256d(self.header_raw())
        return self._id

    def touch(self):
        self._raw = self._id = None
        return self


# ------------------------------------------------------------------ strict canonical decoders

def dec_sig(r):
    t = r.u8()
    if t == 0:
        return ("se",)
    if t == 1:
        h = r.u32()
        n = r.u8()
        return ("cb", h, r.read(n))
    if t == 2:
        return ("sig", r.read(64))
    raise DecodeError("signature tag %d" % t)


def dec_out(r):
    v = r.u64()
    if r.u8() != 2:
        raise DecodeError("public key tag")
    return (v, r.read(64))


def dec_tx(r, strict=True):
    if r.u8() != 0:
        raise DecodeError("tx version")
    ins = []
    for _ in range(r.vlq(strict)):
        h = r.read(32)
        i = r.u32()
        ins.append((h, i, dec_sig(r)))
    outs = [dec_out(r) for _ in range(r.vlq(strict))]
    return RTx(ins, outs)


def dec_header(r, strict=True):
    if r.u8() != 0:
        raise DecodeError("block version")
    height = r.vlq(strict)
    prev = r.read(32)
    merkle = r.read(32)
    ts = r.u32()
    target = r.read(32)
    nonce = r.u32()
    ev = (r.read(32), r.read(32), r.read(32))
    return RBlock(height, prev, merkle, ts, target, nonce, ev, [])


def dec_block(b, strict=True):
    r = Reader(b)
    blk = dec_header(r, strict)
    blk.txs = [dec_tx(r, strict) for _ in range(r.vlq(strict))]
    return blk, r.pos


# ------------------------------------------------------------------ merkle

def merkle_root(ids):
    ids = list(ids)
    if not ids:
        raise ValueError("empty")
    while len(ids) > 1:
        nxt = []
        for i in range(0, len(ids), 2):
            if i + 1 < len(ids):
                nxt.append(sha256d(ids[i] + ids[i + 1]))
            else:
                nxt.append(ids[i])          # odd element promoted, not duplicated
        ids = nxt
    return ids[0]


# ------------------------------------------------------------------ subsidy / retarget

def subsidy(h):
    e = h // HALVING
    return 0 if e >= 64 else (1_000_000_000 >> e)


def cumulative_subsidy(h):
    """sum of subsidy(0..h) in closed form per era"""
    total, era = 0, 0
    n = h + 1
    while n > 0 and era < 64:
        k = min(n, HALVING)
        total += k * (1_000_000_000 >> era)
        n -= k
        era += 1
    return total


def retarget(prev_target_bytes, elapsed, timespan=REAL_TIMESPAN):
    v = int.from_bytes(prev_target_bytes, "big") * elapsed // timespan
    return min(v, TWO256 - 1).to_bytes(32, "big")


class Config:
    """consensus parameters the harness configured in the code under test (and hence uses in the reference)"""

    def __init__(self, period=REAL_PERIOD, timespan=REAL_TIMESPAN, scrypt=fast_scrypt):
        self.period, self.timespan, self.scrypt = period, timespan, scrypt

    def key(self):
        return (self.period, self.timespan)


# ------------------------------------------------------------------ ledger

class RNode:
    """a stored block in the reference ledger"""
    __slots__ = ("blk", "id", "parent", "height", "utxo", "chain", "seq")

    def __init__(self, blk, parent, utxo, chain, seq):
        self.blk, self.id, self.parent, self.height, self.utxo, self.chain, self.seq = blk, blk.id(), parent, blk.height, utxo, chain, seq


def apply_block(utxo, blk):
    """-> new unspent dict {(txid, index): (value, pub)}; raises KeyError on a missing reference"""
    u = dict(utxo)
    for ti, tx in enumerate(blk.txs):
        if ti > 0:
            for (h, i, _s) in tx.ins:
                del u[(h, i)]
        tid = tx.id()
        for oi, o in enumerate(tx.outs):
            u[(tid, oi)] = o
    return u


class RefLedger:
    def __init__(self, genesis_bytes, cfg=None):
        self.cfg = cfg or Config()
        g, n = dec_block(genesis_bytes)
        if n != len(genesis_bytes):
            raise ValueError("genesis has trailing bytes")
        self.nodes = {}
        self.order = []
        self.genesis = self._store(g, None)

    def _store(self, blk, parent):
        utxo = apply_block(parent.utxo if parent else {}, blk)
        chain = (parent.chain if parent else ()) + (blk.id(),)
        n = RNode(blk, parent, utxo, chain, len(self.order))
        self.nodes[n.id] = n
        self.order.append(n.id)
        return n

    def add(self, blk):
        """store without validation (parent must be stored)"""
        return self._store(blk, self.nodes[blk.prev])

    # ---- reference fork choice / tips / index
    def head(self):
        best = None
        for i in self.order:
            n = self.nodes[i]
            if best is None or n.height > best.height:
                best = n
        return best

    def tips(self):
        parents = {n.blk.prev for n in self.nodes.values()}
        return {i for i in self.nodes if i not in parents}

    def index(self, i):
        return dict(enumerate(self.nodes[i].chain))

    def replay_from_genesis(self, i):
        u = {}
        for bid in self.nodes[i].chain:
            u = apply_block(u, self.nodes[bid].blk)
        return u

    def balances(self, utxo):
        out = {}
        for ref, (v, pk) in utxo.items():
            e = out.setdefault(pk, [0, set()])
            e[0] += v
            e[1].add(ref)
        return out

    # ---- header rules
    def prescribed_target(self, parent, ts):
        h = parent.height + 1
        if h % self.cfg.period == 0:
            start = self.nodes[parent.chain[h - self.cfg.period]]
            return retarget(parent.blk.target, ts - start.blk.ts, self.cfg.timespan)
        return parent.blk.target

    def evidence(self, blk, parent):
        return pow_evidence(blk, (lambda h: self.nodes[parent.chain[h]].blk.raw()) if parent else None, self.cfg.scrypt)

    # ---- the reference validator: list of violated clauses (empty = fully valid)
    def validate(self, blk, now):
        bad = []
        parent = self.nodes.get(blk.prev)
        if parent is None:
            return ["C05:unknown-parent"]
        # structural rules the code documents
        if len(blk.txs) == 0:
            return ["S:no-transactions"]
        try:
            size = len(blk.raw())
        except (struct.error, OverflowError, ValueError):
            return ["S:unencodable"]
        if size > MAX_BLOCK_SIZE:
            bad.append("S:size")
        cb = blk.txs[0]
        if len(cb.ins) != 1 or cb.ins[0][0] != NULL32 or cb.ins[0][1] != 0:
            bad.append("S:first-not-reward")
        elif cb.ins[0][2][0] != "cb":
            bad.append("S:reward-without-data")
        else:
            if len(cb.ins[0][2][2]) > MAX_CB_DATA:
                bad.append("S:reward-data-size")
            if cb.ins[0][2][1] != blk.height:
                bad.append("C05:reward-height")
        seen_tx = set()
        for tx in blk.txs[1:]:
            if tx.id() in seen_tx:
                bad.append("S:duplicate-transaction")
            seen_tx.add(tx.id())
            if not tx.ins:
                bad.append("S:no-inputs")
            if not tx.outs:
                bad.append("S:no-outputs")
        if blk.merkle != merkle_root([t.id() for t in blk.txs]):
            bad.append("S:merkle")
        # C05 header
        if not int.from_bytes(blk.id(), "big") < int.from_bytes(blk.target, "big"):
            bad.append("C05:pow")
        if blk.ts > now + MAX_FUTURE:
            bad.append("C05:future")
        if blk.ts <= parent.blk.ts:
            bad.append("C05:time-not-increasing")
        if blk.height != parent.height + 1:
            bad.append("C05:height")
        elif blk.target != self.prescribed_target(parent, blk.ts):
            bad.append("C05:target")
        if blk.height >= 1 and blk.height == parent.height + 1 and tuple(blk.ev) != tuple(self.evidence(blk, parent)):
            bad.append("C05:evidence")
        # C01 / C02 transactions
        fees = 0
        spent = set()
        for ti, tx in enumerate(blk.txs[1:], 1):
            tot_in, ok_inputs = 0, True
            for (h, i, sig) in tx.ins:
                if h == NULL32 and i == 0:
                    bad.append("C01:null-reference")
                    ok_inputs = False
                    continue
                if (h, i) in spent:
                    bad.append("C01:spent-twice-in-block")
                spent.add((h, i))
                prev_out = parent.utxo.get((h, i))
                if prev_out is None:
                    bad.append("C01:missing-or-spent-output")
                    ok_inputs = False
                    continue
                tot_in += prev_out[0]
                if sig[0] != "sig":
                    bad.append("C01:placeholder-signature")
                elif not keys.verify(prev_out[1], sig[1], signing_message(tx)):
                    bad.append("C01:bad-signature")
            tot_out = 0
            for (v, _pk) in tx.outs:
                if not (0 < v <= MAX_SASHIMI):
                    bad.append("C02:output-range")
                tot_out += v
            if not (0 < tot_out <= MAX_SASHIMI):
                bad.append("C02:total-range")
            if ok_inputs:
                if tot_out > tot_in:
                    bad.append("C02:outputs-exceed-inputs")
                fees += tot_in - tot_out
            if len({(h, i) for (h, i, _s) in tx.ins}) != len(tx.ins):
                bad.append("C01:reference-twice-in-transaction")
        if not any(b.startswith("C01") or b == "C02:outputs-exceed-inputs" for b in bad):
            if sum(v for v, _ in cb.outs) > subsidy(blk.height) + fees:
                bad.append("C02:reward-exceeds-subsidy-plus-fees")
        return bad


def pow_evidence(blk, raw_at_height, scrypt):
    """evidence recomputed from the summary, the ancestors the summary hash selects, and the full transaction list"""
    sh = scrypt(blk.summary_raw(), blk.height.to_bytes(8, "big"))
    if blk.height == 0:
        sample = b"\x00" * 32
    else:
        parts = []
        cur = sh
        for k in range(8):
            sel = int.from_bytes(cur[:8], "big") % blk.height
            raw = raw_at_height(sel)
            start = int.from_bytes(cur[8:12], "big") % len(raw)
            s = b""
            while len(s) < 4:
                s += raw[start:start + 4 - len(s)]
                start = 0
            parts.append(s)
            if k != 7:
                cur = sha256d(cur + s)
        sample = b"".join(parts)
    bh = blake2(sh + sample + enc_txlist(blk.txs))
    return (sh, sample, bh)


# ------------------------------------------------------------------ stream framer (C11)

MAGIC = b"MAJI"
MAX_MESSAGE_SIZE = 32 * 1024 * 1024


def frame(payload):
    return MAGIC + struct.pack(">I", len(payload)) + payload


def parse_stream(b, limit=None):
    """-> (payloads delivered, refusal) where refusal = None | ('magic'|'length', offset of the byte that completes the
    offending 4-byte field) ; a trailing partial frame is simply pending"""
    out, pos = [], 0
    while True:
        if len(b) - pos < 4:
            return out, None
        if b[pos:pos + 4] != MAGIC:
            return out, ("magic", pos + 3)
        if len(b) - pos < 8:
            return out, None
        n = struct.unpack(">I", b[pos + 4:pos + 8])[0]
        if n > (MAX_MESSAGE_SIZE if limit is None else limit):
            return out, ("length", pos + 7)
        if len(b) - pos - 8 < n:
            return out, None
        out.append(b[pos + 8:pos + 8 + n])
        pos += 8 + n
