"""atheris (libFuzzer) target for the consensus decoders with the C07 oracle inside:
   decode returns  =>  re-encode == bytes consumed  and  id == sha256d(canonical encoding).
usage: python -m vf.fuzz.c07_target <block|transaction> <corpus_dir> [libFuzzer flags]"""
import io
import sys

from vf import env

env.import_repo()
import atheris  # noqa: E402

with atheris.instrument_imports(include=["skepticoin"]):
    import importlib
    import skepticoin.serialization
    import skepticoin.signing
    import skepticoin.datatypes
    for m in (skepticoin.serialization, skepticoin.signing, skepticoin.datatypes):
        importlib.reload(m)
    from skepticoin import datatypes as D

import hashlib  # noqa: E402


def sha256d(b):
    return hashlib.sha256(hashlib.sha256(b).digest()).digest()


WHICH = sys.argv[1]


class OracleViolation(Exception):
    pass


def one(data):
    f = io.BytesIO(data)
    try:
        obj = (D.Block if WHICH == "block" else D.Transaction).stream_deserialize(f)
    except Exception:
        return
    consumed = data[:f.tell()]
    again = obj.serialize()
    if again != consumed:
        raise OracleViolation("re-encode != consumed")
    canon = obj.header.serialize() if WHICH == "block" else again
    if obj.hash() != sha256d(canon):
        raise OracleViolation("id != sha256d(canonical)")


def main():
    argv = [sys.argv[0]] + sys.argv[2:]
    atheris.Setup(argv, one)
    atheris.Fuzz()


if __name__ == "__main__":
    main()
