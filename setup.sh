#!/bin/bash
# MANIFEST.setup_cmd: offline, idempotent.  Installs hypothesis into /venv if absent and atheris into /verif/.deps.
set -u
cd "$(dirname "$0")"
export PIP_NO_INDEX=1
WH=/opt/veriftools/wheels
if ! /venv/bin/python -c "import hypothesis" 2>/dev/null; then
  /venv/bin/pip install --no-index --find-links "$WH" hypothesis >/dev/null 2>&1 || echo "setup: hypothesis install failed" >&2
fi
mkdir -p .deps evidence evidence/replays
if ! PYTHONPATH=.deps /venv/bin/python -c "import atheris" 2>/dev/null; then
  /venv/bin/pip install --no-index --find-links "$WH" --target .deps atheris >/dev/null 2>&1 || echo "setup: atheris not installed (fuzz targets fall back to hypothesis-driven bytes)" >&2
fi
/venv/bin/python -c "import hypothesis; print('setup ok: hypothesis', hypothesis.__version__)"
