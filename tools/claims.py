# executed by mkmanifest.py: one claim(...) per property that has a registered check
NA_REASONS = {}

claim("C16", "exploration", "exhaustive enumeration + Hypothesis vs reference formula",
      "Exhaustive over every height with a non-zero subsidy (0..33.6M) and every era boundary up to 2^32/2^64: subsidy equals the documented formula, never increases, sums to exactly the documented maximum, which equals the validator's amount limit. The domain is finite and small, so enumeration is complete for it.",
      "Trusted: the reference formula (one line, from docs/params.md), Python integer arithmetic.",
      "DESIGN.md 4/C16")
