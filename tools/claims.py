# executed by mkmanifest.py: one claim(...) per property that has a registered check
NA_REASONS = {}

claim("C16", "exploration", "exhaustive enumeration + Hypothesis vs reference formula",
      "Exhaustive over every height with a non-zero subsidy (0..33.6M) and every era boundary up to 2^32/2^64: subsidy equals the documented formula, never increases, sums to exactly the documented maximum, which equals the validator's amount limit. The domain is finite and small, so enumeration is complete for it.",
      "Trusted: the reference formula (one line, from docs/params.md), Python integer arithmetic.",
      "DESIGN.md 4/C16")

claim("C01", "exploration", "Hypothesis-generated histories + single-rule mutation catalogue vs independent reference validator; state digest",
      "Generated chain histories (forks, reorganisations, spends) with adversarial candidate blocks, each breaking exactly one spending rule, offered to CoinState.add_block on any stored parent; acceptance implies the independent reference validator (own encoder, own ledger, ecdsa verification under the referenced output's key over the blanked transaction) accepts; a digest of the whole receiver state is unchanged by every attempt; the resulting unspent map equals the reference map. Exploration: held on the thousands of candidates generated per run; sensitivity shown on mutants M01a-e.",
      "Trusted: reference validator (vf/refmodel.py), ecdsa verifier, test configuration (sha256 stand-in for scrypt, checkpoints off, short retarget periods).",
      "DESIGN.md 4/C01")
claim("C02", "exploration", "Hypothesis-generated histories + value mutations vs reference ledger; supply invariant; range function vs spec",
      "Generated histories with reward/value mutations (reward +1/+k, zero/over-limit/overflowing outputs, outputs > inputs) and boundary fees; acceptance implies the reference value clauses with fees taken against the parent's reference state; after every accepted block the code's own unspent map sums to at most parent + subsidy, equals the reference sum and stays below the cumulative schedule; validate_sashimi_range accepts exactly 1..MAX on a boundary-heavy integer strategy.",
      "Trusted: reference ledger and subsidy formula, test configuration.",
      "DESIGN.md 4/C02")
claim("C05", "exploration", "Hypothesis: arithmetic vs reference, header-mutation histories (patched and REAL retarget period on fabricated deep states), differential evidence, assembly completeness",
      "Four generated sub-checks: exact retarget arithmetic and the id<target comparison against reference formulas; histories with exactly one header rule broken (target, height, reward height, time, future limit, PoW, each evidence field, parent, merkle) under short periods and on fabricated deep states with the real 10,080-block period straddled by forks; the code's PoW evidence and chain sampling against an independent implementation incl. wrap-around; every block produced by the node's own assembly on generated chains (forks, boundaries, pools) passes the reference clauses and add_block.",
      "Trusted: reference formulas, fabricated deep states (filler ancestors not linked), sha256 stand-in for scrypt via the same code path.",
      "DESIGN.md 4/C05")

claim("C03", "exploration", "Hypothesis-generated block trees x enumerated/drawn arrival orders vs replay-from-genesis reference; metamorphic order agreement; snapshot digests",
      "Generated block trees with transactions (divergent spends, same transaction on two forks) re-delivered in every topological order (<= 6 blocks) or several drawn ones, validated and unvalidated; at every stored block the unspent map and per-key balances equal an independent replay from genesis, the wallet balance equals the reference sum, all orders agree, and every intermediate snapshot keeps its digest.",
      "Trusted: replay-from-genesis reference, test configuration.", "DESIGN.md 4/C03")
claim("C04", "exploration", "bounded-exhaustive DFS over all arrival histories (n<=8 / n<=10) + Hypothesis validated histories vs reference fork choice",
      "Every arrival history of up to 8 (quick) / 10 (thorough) blocks is enumerated (46,234 / 4,037,914 states); after every arrival head, tips, the by-height index of every stored block and forks() are compared with a reference fork choice written from the statement. Random validated histories with transactions add depth beyond the bound. Exhaustive within the bound; exploration beyond it.",
      "Trusted: reference fork choice (earliest arrival among maximal height), blocks in the exhaustive part are unvalidated reward-only blocks.", "DESIGN.md 4/C04")

claim("C06", "fault_enumeration", "exhaustive single-bit flips and truncations of generated valid blocks (fault enumeration) vs decode-or-reject oracle",
      "For each valid block drawn from generated forked chains (half of them at a saturated target so the id<target test cannot mask a missing commitment) ALL single-bit flips and ALL proper prefixes of its encoding are enumerated (about 0.9M altered strings per quick run); each must fail to decode or be rejected by full validation against the same chain with the same clock. Exhaustive per block; the blocks themselves are sampled.",
      "Trusted: test configuration (sha256 stand-in for scrypt).", "DESIGN.md 4/C06")

claim("C07", "exploration", "Hypothesis type-directed round trips + structure-aware byte edits + atheris coverage-guided fuzzing; oracle: re-encode == consumed bytes, strict reference decoder, id == sha256d",
      "Values of every consensus type and wire message round-trip field by field; for byte strings offered to the consensus decoders (valid encodings with padded VLQs, altered tags, counts +-1, trailing data, byte edits; random bytes; ~1.5M coverage-guided atheris executions per quick run) a returning decoder implies re-encoding equals the consumed bytes, agreement with a strict reference decoder, and id = double SHA-256 of the canonical encoding; ids checked for objects decoded from bytes, read back from a BlockStore and built in memory. Found and led to the repair of C07-F1 (non-canonical VLQ) and C07-F2 (unencodable reward data).",
      "Trusted: reference encoder/decoder in vf/refmodel.py; atheris campaigns only approximately reproducible (saved inputs are the reproducible unit).", "DESIGN.md 4/C07")

claim("C17", "exploration", "exhaustive small lists x all single edits + Hypothesis lists/edit sequences vs reference merkle root and independent proof walk",
      "All list lengths 1..9 (quick) / 1..12 (thorough), every position and every single structural edit (substitute, swap, rotate, remove, append, duplicate incl. the last entry): the commitment equals the reference root and changes unless the list is unchanged; every inclusion proof reproduces the root (recomputed independently over the proof structure) and contains the entry; random lists up to 300 with edit sequences; calc_merkle_root_hash agrees with the reference over transaction ids.",
      "Trusted: reference merkle root (odd element promoted). Ids equal to inner nodes (hash pre-images) are not generated.", "DESIGN.md 4/C17")
claim("C18", "exploration", "exhaustive over the pinned checkpoint table + Hypothesis wrong ids; unpatched deep-state scenario; recorded real blocks with real scrypt vs independent reference",
      "All 327 checkpointed heights: the checkpoint id passes, generated wrong ids (random, one bit off, same prefix/suffix, another height's checkpoint) are refused, free heights are not refused; with nothing patched, candidates at 162,999 / 163,000 / 163,001 on fabricated bases behave as skip / refuse / fully validate; genesis and the five recorded real blocks keep their ids, re-encode byte-identically, pass add_block with the real scrypt, and their evidence equals an independent reference (scrypt N=2^15,r=8,p=1; blake2b-256; sha256d).",
      "Trusted: pinned copies of the table and blocks (vf/data), the scrypt package, fabricated deep bases.", "DESIGN.md 4/C18")

claim("C14", "exploration", "Hypothesis rule-based state machine (spend / confirm / block) vs reference spendable-set model and validators",
      "Stateful model-based test of create_spend_transaction on generated ledgers and wallets: success iff the model's spendable total covers amount+fee; successful spends are exact (recipient output, change, no zero change), valid under the node's and the reference validation, use only spendable outputs not used before; failures leave the wallet's used-output record unchanged so a later affordable spend succeeds. Found and led to the repair of C14-F1.",
      "Trusted: reference ledger; spends extend the head only.", "DESIGN.md 4/C14")
claim("C15", "fault_enumeration", "Hypothesis rule-based state machine vs key-book model; fork-and-kill crash injection at EVERY write/rename boundary of every save",
      "Stateful model-based test of key hand-out / restore / dump / load / save / reload (Wallet.load and open_or_init_wallet) with unicode annotations; every save_wallet in a sequence is additionally executed in forked children killed at every chunk boundary, before/after file creation and around the rename: wallet.json must always load as the complete previous or new wallet. Balance equals the reference total over all wallet keys.",
      "Trusted: process-crash model (no power loss); chunk boundaries are a superset of real buffered-write prefixes.", "DESIGN.md 4/C15")
claim("C08", "exploration", "Hypothesis-generated histories x flush batchings x reloads; oracle written == read (bytes) and rebuilt ledger == reference; faulty second reference classifies the known finding",
      "Validated histories with forks and spends are written through the real BlockStore (and DiskInterface/DefaultBlockStore) under drawn batchings; after every flush the store is reopened and must return exactly the written blocks byte for byte, parents first, and a rebuild as read_chain_from_disk does must give reference-equal unspent maps and the live head height. Known finding C08-F1 (a transaction id shared by two blocks) is recognised only when the read-back equals a deliberately faulty 'first writer keeps the id' model; any other difference is a violation; half of the histories exclude shared ids by construction.",
      "Trusted: reference ledger, SQLite on a temp file.", "DESIGN.md 4/C08, 5")
