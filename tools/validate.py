#!/opt/veriftools/pyvenv/bin/python
"""Validate MANIFEST.json and evidence/*.json against the schemas (run with python3-vt, which has jsonschema)."""
import glob, json, sys
import jsonschema
ok = True
man = json.load(open('/verif/MANIFEST.json'))
jsonschema.validate(man, json.load(open('/root/.vp/MANIFEST.schema.json')))
es = json.load(open('/root/.vp/EVIDENCE.schema.json'))
for c in man['checks']:
    try:
        jsonschema.validate(json.load(open('/verif/' + c['evidence_file'])), es)
    except Exception as e:
        ok = False
        print("BAD", c['evidence_file'], str(e)[:300])
print("validated manifest + %d evidence files: %s" % (len(man['checks']), "ok" if ok else "FAILED"))
sys.exit(0 if ok else 1)
