#!/bin/bash
# re-evaluate every kept seeded change with its owning check (updates seeded/<id>/meta.json: ran / detected_by)
cd "$(dirname "$0")/.."
for d in seeded/C*; do id=$(basename $d); tools/seedtest.py $d --keep-as $id "$@" >/tmp/seedall_$id.log 2>&1; echo "$id $(python3 -c "import json;m=json.load(open('$d/meta.json'));print(m.get('detected_by'))")"; done
