#!/bin/bash
# run every quick check (evidence not touched) at the given seeds; print one line per check and the offenders at the end
cd "$(dirname "$0")/.."
bad=0
for seed in "${@:-1}"; do
  for i in $(seq -w 1 20); do
    out=$(VERIF_SEED=$seed ./check C$i quick --no-evidence 2>&1); rc=$?
    echo "seed=$seed rc=$rc $(echo "$out" | tail -1 | cut -c1-160)"
    if [ $rc -ne 0 ]; then bad=$((bad+1)); echo "$out" | grep -E "VIOLATION|HARNESS" | head -3 | cut -c1-300; fi
  done
done
echo "non-zero exits: $bad"
