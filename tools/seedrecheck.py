#!/venv/bin/python
"""Re-evaluate every kept seeded change with its owning check only (the confirmation -- demo + suite -- was done when the
change was kept): copy /repo, apply seeded/<id>/patch.diff, run ./check <property> quick with VERIF_REPO=<copy>, record
meta.json["detected_by"] / ["rechecked_at"].  usage: tools/seedrecheck.py [--seed N] [-j N] [ids...]"""
import json
import os
import shutil
import subprocess
import sys
import tempfile
from concurrent.futures import ThreadPoolExecutor

HOME = os.path.dirname(os.path.dirname(os.path.abspath(__file__)))


SEED = "1"
WRITE = True


def one(sid):
    d = os.path.join(HOME, "seeded", sid)
    meta = json.load(open(os.path.join(d, "meta.json")))
    prop = meta["property"]
    tmp = tempfile.mkdtemp(prefix="vfre_")
    try:
        subprocess.run(["rsync", "-a", "--exclude", ".git", "--exclude", "__pycache__", "--exclude", "chain.db", "/repo/", tmp + "/"], check=True)
        r = subprocess.run("patch -p1 -s < %s" % os.path.join(d, "patch.diff"), shell=True, cwd=tmp, capture_output=True, text=True)
        if r.returncode != 0:
            return sid, prop, "patch-failed", ""
        env = dict(os.environ, VERIF_REPO=tmp, VERIF_SEED=SEED)
        r = subprocess.run([os.path.join(HOME, "check"), prop, "quick", "--no-evidence"], capture_output=True, text=True, env=env)
        viol = [l for l in r.stdout.splitlines() if l.startswith("VIOLATION")]
        head = subprocess.run(["git", "-C", HOME, "rev-parse", "--short", "HEAD"], capture_output=True, text=True).stdout.strip()
        meta["detected_by"] = sorted(set([prop] if r.returncode == 1 else []) | (set(meta.get("detected_by", [])) - {prop}))
        meta["rechecked_at"] = head
        meta["recheck_exit"] = r.returncode
        if WRITE:
            json.dump(meta, open(os.path.join(d, "meta.json"), "w"), indent=1)
        return sid, prop, r.returncode, (viol[0].split("#", 1)[-1].strip()[:110] if viol else (r.stdout + r.stderr).strip().splitlines()[-1][:110])
    finally:
        shutil.rmtree(tmp, ignore_errors=True)


def main():
    global SEED, WRITE
    args = sys.argv[1:]
    j = 3
    if args[:1] == ["--seed"]:                 # another seed: measures how much a detection depends on luck; meta.json untouched
        SEED, WRITE = args[1], False
        args = args[2:]
    if args[:1] == ["-j"]:
        j = int(args[1])
        args = args[2:]
    ids = args or sorted(os.listdir(os.path.join(HOME, "seeded")))
    bad = 0
    with ThreadPoolExecutor(j) as ex:
        for sid, prop, rc, msg in ex.map(one, ids):
            print("%-10s %-4s exit=%s  %s" % (sid, prop, rc, msg), flush=True)
            if rc != 1:
                bad += 1
    print("not detected: %d of %d" % (bad, len(ids)))
    sys.exit(1 if bad else 0)


if __name__ == "__main__":
    main()
