#!/venv/bin/python
"""Markdown table of all kept seeded changes (seeded/<id>/meta.json) for DESIGN.md section 9.6."""
import json
import os

HOME = os.path.dirname(os.path.dirname(os.path.abspath(__file__)))


def main():
    rows = []
    stats = {}
    for s in sorted(os.listdir(os.path.join(HOME, "seeded"))):
        m = json.load(open(os.path.join(HOME, "seeded", s, "meta.json")))
        rnd = "1" if "-R" not in s else s.split("-R")[1][0]
        first = m.get("detected_at_first_evaluation")
        now = m.get("detected_by", [])
        st = stats.setdefault(rnd, [0, 0, 0])
        st[0] += 1
        st[1] += 1 if first else 0
        st[2] += 1 if m["property"] in now else 0
        summ = " ".join(str(m.get("summary", "")).split())[:150].replace("|", "/")
        needs = " ".join(str(m.get("needs", "")).split())[:110].replace("|", "/")
        rows.append("| %s | %s | %s | %s | %s |" % (s, summ, needs, "yes" if first else "**no**", ", ".join(now) or "**none**"))
    print("| id | change | what it needs to show | caught at first evaluation | caught now by |")
    print("|---|---|---|---|---|")
    print("\n".join(rows))
    print()
    for r in sorted(stats):
        print("round %s: %d kept, %d caught by the owning quick check at first evaluation, %d now" % (r, *stats[r]))


if __name__ == "__main__":
    main()
