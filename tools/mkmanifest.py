#!/venv/bin/python
"""Regenerates MANIFEST.json from the table below (single source of truth for what is claimed)."""
import importlib
import json
import os
import sys

HOME = os.path.dirname(os.path.dirname(os.path.abspath(__file__)))
sys.path.insert(0, HOME)

# id -> (category, technique, text, note, design_ref)
CLAIMS = {}


def claim(pid, category, technique, text, note, ref):
    CLAIMS[pid] = (category, technique, text, note, ref)


exec(open(os.path.join(HOME, "tools", "claims.py")).read())

ALL = ["C%02d" % i for i in range(1, 21)]
NOT_YET = {}


def main():
    checks = []
    for pid in ALL:
        if pid not in CLAIMS:
            continue
        category, technique, text, note, ref = CLAIMS[pid]
        checks.append({
            "property_id": pid,
            "quick_cmd": "./check %s quick" % pid,
            "thorough_cmd": "./check %s thorough" % pid,
            "evidence_file": "evidence/%s.json" % pid,
            "replay_cmd_template": "./check %s quick --replay {path}" % pid,
            "engine": "vf",
            "level_claimed": {"category": category, "text": text, "design_ref": ref},
            "level_note": note,
            "technique": technique,
        })
    na = [{"property_id": p, "reason": NA_REASONS.get(p, "check not built yet in this revision (planned: see DESIGN.md section 4); not a statement about applicability of the technique")}
          for p in ALL if p not in CLAIMS]
    man = {
        "version": 1,
        "setup_cmd": "./setup.sh",
        "hooks": {
            "guard": "SKEPTICOIN_VERIF",
            "enable": "none needed: checks import /repo's working tree directly (PYTHONPATH) and observe public attributes; no guarded source change exists",
            "baseline_off_cmd": "cd /repo && /venv/bin/python -m pytest -ra -q -p no:cacheprovider --timeout=900 --continue-on-collection-errors",
            "source_commits": [],
            "add_only": True,
        },
        "engines": [{
            "name": "vf", "path": "vf/",
            "serves_properties": [c["property_id"] for c in checks],
            "kind_free_text": "property-based testing and fuzzing: Hypothesis (stateful machines, @given), bounded-exhaustive enumeration, atheris; explicit reference models as oracles; 16-way sharded runner",
        }],
        "checks": checks,
        "not_applicable": na,
        "notes": "Run ./setup.sh once. Every check: ./check <ID> <quick|thorough>; VERIF_SEED selects the seed; replays under evidence/replays/. Known findings: known_findings.json.",
    }
    with open(os.path.join(HOME, "MANIFEST.json"), "w") as f:
        json.dump(man, f, indent=1)
    print("MANIFEST.json: %d checks, %d not_applicable" % (len(checks), len(na)))


if __name__ == "__main__":
    main()
