#!/venv/bin/python
"""Confirm and evaluate a seeded breakage produced by an independent sub-agent.

usage: tools/seedtest.py <dir with patch.diff demo.py meta.json> [--checks C01,C09 | --all] [--tier quick] [--keep-as ID]

Steps (all in a scratch copy of /repo outside /repo and /verif, removed afterwards):
  1. demo on the unchanged copy            -> must exit 0
  2. apply patch; pinned test suite        -> must pass
  3. demo on the changed copy              -> must exit non-zero
  4. run the requested checks with VERIF_REPO=<copy>  -> report exit codes / VIOLATION lines
With --keep-as the confirmed change is copied to /verif/seeded/<ID>/ with an updated meta.json."""
import argparse
import json
import os
import shutil
import subprocess
import sys
import tempfile

HOME = os.path.dirname(os.path.dirname(os.path.abspath(__file__)))
REPO = "/repo"


def sh(cmd, cwd=None, env=None, timeout=3600):
    r = subprocess.run(cmd, shell=True, cwd=cwd, env=env, capture_output=True, text=True, timeout=timeout)
    return r.returncode, (r.stdout + r.stderr)


def main():
    ap = argparse.ArgumentParser()
    ap.add_argument("dir")
    ap.add_argument("--checks")
    ap.add_argument("--all", action="store_true")
    ap.add_argument("--tier", default="quick")
    ap.add_argument("--keep-as")
    ap.add_argument("--seed", default="1")
    a = ap.parse_args()
    d = os.path.abspath(a.dir)
    meta = json.load(open(os.path.join(d, "meta.json")))
    prop = meta.get("property")
    out = {"property": prop, "dir": d}
    tmp = tempfile.mkdtemp(prefix="vfseed_")
    try:
        subprocess.run(["rsync", "-a", "--exclude", ".git", "--exclude", "__pycache__", "--exclude", "chain.db", "--exclude", "seeded", REPO + "/", tmp + "/"], check=True)
        os.makedirs(os.path.join(tmp, "seeded", "X"))
        shutil.copy(os.path.join(d, "demo.py"), os.path.join(tmp, "seeded", "X", "demo.py"))
        envd = dict(os.environ, PYTHONPATH=tmp, PYTHONDONTWRITEBYTECODE="1")
        rc, o = sh("/venv/bin/python seeded/X/demo.py", cwd=tmp, env=envd, timeout=900)
        out["demo_unchanged_exit"] = rc
        if rc != 0:
            out["demo_unchanged_tail"] = o[-600:]
        rc, o = sh("patch -p1 -s < %s" % os.path.join(d, "patch.diff"), cwd=tmp)
        out["patch_applies"] = rc == 0
        if rc != 0:
            out["patch_error"] = o[-400:]
        for attempt in range(3):          # the two socket-level integration tests are timing-sensitive under load: retry
            rc, o = sh("unshare -n sh -c 'ip link set lo up; /venv/bin/python -m pytest -q -p no:cacheprovider --timeout=900' 2>&1 | tail -4", cwd=tmp, env=envd)
            ok = " passed" in o and "failed" not in o and "error" not in o.lower()
            if ok or "test_integration" not in o:
                break
        out["suite"] = "passed" if ok else "FAILED: " + o[-300:]
        out["suite_attempts"] = attempt + 1
        rc, o = sh("/venv/bin/python seeded/X/demo.py", cwd=tmp, env=envd, timeout=900)
        out["demo_changed_exit"] = rc
        out["demo_changed_tail"] = o.strip()[-300:]
        out["confirmed"] = out["demo_unchanged_exit"] == 0 and out["patch_applies"] and out["suite"] == "passed" and rc != 0
        checks = []
        if a.all:
            checks = ["C%02d" % i for i in range(1, 21)]
        elif a.checks:
            checks = a.checks.split(",")
        elif prop:
            checks = [prop]
        out["checks"] = {}
        for pid in checks:
            envc = dict(os.environ, VERIF_REPO=tmp, VERIF_SEED=a.seed)
            r = subprocess.run([os.path.join(HOME, "check"), pid, a.tier, "--no-evidence"], capture_output=True, text=True, env=envc)
            viol = [l[:300] for l in r.stdout.splitlines() if l.startswith("VIOLATION")]
            out["checks"][pid] = {"exit": r.returncode, "violations": viol[:3], "tail": (r.stdout + r.stderr).strip().splitlines()[-2:] if r.returncode != 1 else []}
    finally:
        shutil.rmtree(tmp, ignore_errors=True)
    print(json.dumps(out, indent=1))
    if a.keep_as and out.get("confirmed"):
        dst = os.path.join(HOME, "seeded", a.keep_as)
        os.makedirs(dst, exist_ok=True)
        for f in ("patch.diff", "demo.py"):
            if os.path.abspath(d) != os.path.abspath(dst):
                shutil.copy(os.path.join(d, f), os.path.join(dst, f))
        if os.path.exists(os.path.join(dst, "meta.json")) and os.path.abspath(d) == os.path.abspath(dst):
            meta = json.load(open(os.path.join(dst, "meta.json")))
        meta["confirmation"] = {k: out[k] for k in ("demo_unchanged_exit", "suite", "demo_changed_exit", "demo_changed_tail")}
        meta["ran"] = "tools/seedtest.py: demo on unchanged copy (exit 0), patch applied, pinned suite (passed), demo on changed copy (non-zero), then: " + ", ".join(
            "./check %s %s -> exit %d" % (p, a.tier, r["exit"]) for p, r in out["checks"].items())
        meta["detected_by"] = sorted(p for p, r in out["checks"].items() if r["exit"] == 1)
        json.dump(meta, open(os.path.join(dst, "meta.json"), "w"), indent=1)
        print("kept as", dst)
    sys.exit(0 if out.get("confirmed") else 3)


if __name__ == "__main__":
    main()
