#!/venv/bin/python
"""Sensitivity self-test: apply each deliberately broken variant (mutants/catalog.json) to a scratch copy of /repo,
optionally run the pinned suite there (a mutant the suite kills is uninformative), run the owning check(s) with
VERIF_REPO=<copy> and expect exit 1 with a VIOLATION line.  The copy is removed afterwards.

usage: tools/selftest.py [--suite] [--tier quick] [--only M01a,M02b | --owner C01] [--jobs 4]"""
import argparse
import json
import os
import shutil
import subprocess
import sys
import tempfile
from concurrent.futures import ThreadPoolExecutor

HOME = os.path.dirname(os.path.dirname(os.path.abspath(__file__)))
REPO = os.environ.get("VERIF_REPO", "/repo")


def apply_edits(root, edits):
    for e in edits:
        p = os.path.join(root, e["file"])
        s = open(p).read()
        if s.count(e["old"]) != 1:
            raise RuntimeError("%s: pattern occurs %d times: %r" % (e["file"], s.count(e["old"]), e["old"][:60]))
        open(p, "w").write(s.replace(e["old"], e["new"]))


def one(m, args):
    d = tempfile.mkdtemp(prefix="vfmut_%s_" % m["id"])
    out = {"id": m["id"], "owners": m["owners"], "results": {}}
    try:
        subprocess.run(["rsync", "-a", "--exclude", ".git", "--exclude", "__pycache__", "--exclude", "chain.db", REPO + "/", d + "/"], check=True)
        if "patch" in m:
            subprocess.run(["patch", "-p1", "-s", "-d", d, "-i", os.path.join(HOME, m["patch"])], check=True)
        else:
            apply_edits(d, m["edits"])
        if args.suite:
            r = subprocess.run("cd %s && unshare -n sh -c 'ip link set lo up; /venv/bin/python -m pytest -q -x -p no:cacheprovider --timeout=900' 2>&1 | tail -3" % d,
                               shell=True, capture_output=True, text=True)
            out["suite"] = "passed" if " passed" in r.stdout and "failed" not in r.stdout and "error" not in r.stdout.lower() else "KILLED-BY-SUITE: " + r.stdout.strip()[-200:]
        for pid in m["owners"]:
            env = dict(os.environ, VERIF_REPO=d, VERIF_SEED=str(args.seed))
            r = subprocess.run([os.path.join(HOME, "check"), pid, args.tier, "--no-evidence", "--jobs", str(args.check_jobs)],
                               capture_output=True, text=True, env=env)
            viol = [l for l in r.stdout.splitlines() if l.startswith("VIOLATION")]
            out["results"][pid] = {"exit": r.returncode, "violations": [v[:260] for v in viol[:3]],
                                   "tail": (r.stdout + r.stderr).strip().splitlines()[-2:] if r.returncode != 1 else []}
    except Exception as e:
        out["error"] = repr(e)
    finally:
        shutil.rmtree(d, ignore_errors=True)
    return out


def main():
    ap = argparse.ArgumentParser()
    ap.add_argument("--suite", action="store_true")
    ap.add_argument("--tier", default="quick")
    ap.add_argument("--only")
    ap.add_argument("--owner")
    ap.add_argument("--jobs", type=int, default=2)
    ap.add_argument("--check-jobs", type=int, default=8)
    ap.add_argument("--seed", type=int, default=1)
    ap.add_argument("--catalog", default=os.path.join(HOME, "mutants", "catalog.json"))
    ap.add_argument("--expect-quiet", action="store_true", help="benign catalogue: every owning check must exit 0")
    args = ap.parse_args()
    cat = json.load(open(args.catalog))["mutants"]
    if args.only:
        want = set(args.only.split(","))
        cat = [m for m in cat if m["id"] in want]
    if args.owner:
        cat = [m for m in cat if args.owner in m["owners"]]
    bad = 0
    with ThreadPoolExecutor(args.jobs) as ex:
        for out in ex.map(lambda m: one(m, args), cat):
            if args.expect_quiet:
                caught = all(r["exit"] == 0 for r in out["results"].values()) and not out.get("error")
                bad += 0 if caught else 1
                print("%-6s %-7s %s %s" % (out["id"], "QUIET" if caught else "ALARM", out.get("suite", ""), out.get("error", "")))
            else:
                caught = all(r["exit"] == 1 for r in out["results"].values()) and not out.get("error")
                bad += 0 if caught else 1
                print("%-6s %-7s %s %s" % (out["id"], "CAUGHT" if caught else "MISSED", out.get("suite", ""), out.get("error", "")))
            for pid, r in out["results"].items():
                print("       %s exit=%d %s %s" % (pid, r["exit"], (r["violations"] or [""])[0][:200], " | ".join(r["tail"])[:300]))
            sys.stdout.flush()
    print("%d mutant(s) %s" % (bad, "raised an alarm although harmless" if args.expect_quiet else "not caught"))
    sys.exit(1 if bad else 0)


if __name__ == "__main__":
    main()
