#!/bin/bash
# full re-confirmation (demo on unchanged copy, patch, suite, demo on changed copy, owning check) of the given kept seeds, 3 at a time
cd "$(dirname "$0")/.."
mkdir -p /tmp/reconf
printf '%s\n' "$@" | xargs -P 3 -I{} sh -c 'tools/seedtest.py seeded/{} --keep-as {} > /tmp/reconf/{}.log 2>&1; echo "{} $(grep -E "\"(demo_unchanged_exit|suite|demo_changed_exit|exit)\"" /tmp/reconf/{}.log | tr -d "\n " | cut -c1-150)"'
